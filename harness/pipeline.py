"""Pipeline P (DESIGN.md section 4): TLC enumerates a family of EAOModel configurations (strict behaviours and
near-miss prefixes of the relaxed variants, all invariants checked in every state); the behaviours are replayed
into the real assembled problem (spec -> code)."""
import collections
import json
import os
import shutil

import numpy as np

from . import tlc
from .families import tla_cfg
from .project import VarIndex, key_of, pins_for
from .replay import Problem, lattice_ok

MODEL_INVARIANTS = ['ValDef', 'BalanceInv', 'LevelInv', 'WindowInv', 'OrderInertInv', 'GroupInv', 'PeriodInv', 'SplitRefinesUnsplit']
ALL_FAULTS = ['cap', 'rate', 'level_lo', 'level_hi', 'end_level', 'min_take', 'max_take', 'simult', 'hold',
              'outside_window', 'group_rate', 'period_rate', 'order_frac', 'order_full', 'balance']


def enumerate_family(cfgs, relax=(), name='MC', simulate=None, depth=None, seed=None, workers=16, timeout=3000,
                     invariants=MODEL_INVARIANTS, keep=None):
    """Run TLC on EAOModel over `cfgs`.  Returns dict(behs={cid: [beh..]}, stats).  Raises MachineryError if TLC
    fails; returns stats['violated'] = invariant name if the specification itself violates an invariant."""
    wd = tlc.scratch()
    try:
        defs = {'MCConfigs': '{' + ',\n   '.join(tlc.tla(tla_cfg(c)) for c in cfgs) + '}',
                'MCRelax': tlc.tla(set(relax))}
        lines = ['SPECIFICATION Spec', 'CONSTANT Configs <- MCConfigs', 'CONSTANT Relax <- MCRelax',
                 'CONSTRAINT Emit', 'CHECK_DEADLOCK FALSE']
        lines += ['INVARIANT ' + i for i in invariants]
        defs['MCCfgOK'] = '\\A c \\in MCConfigs : CfgOK(c) /\\ GroupPricesOK(c)'
        tlc.write_mc(wd, name, 'EAOModel', defs, lines)
        with open(os.path.join(wd, name + '.tla')) as f:
            txt = f.read()
        txt = txt.replace('====\n', 'ASSUME MCCfgOK\n====\n')
        with open(os.path.join(wd, name + '.tla'), 'w') as f:
            f.write(txt)
        r = tlc.run_tlc(wd, name, workers=workers, simulate=simulate, depth=depth, seed=seed, timeout=timeout, coverage=False)
        behs = collections.defaultdict(list)
        for tag, rec in r['records']:
            behs[rec['cid']].append(rec)
        if r['unparsed'] and workers > 1:
            # interleaved PrintT output: repeat single-threaded (deterministic, slower)
            return enumerate_family(cfgs, relax, name, simulate, depth, seed, 1, timeout, invariants, keep)
        stats = dict(generated=r['generated'], distinct=r['distinct'], wall=round(r['wall'], 2), violated=r['violated'],
                     n_beh=sum(len(v) for v in behs.values()))
        if r['violated']:
            stats['tlc_tail'] = r['out'][-2500:]
        if keep:
            shutil.copytree(wd, keep, dirs_exist_ok=True)
        return dict(behs=behs, stats=stats)
    finally:
        shutil.rmtree(wd, ignore_errors=True)


def lattice_optima(cfgs, name='MCval', workers=16, timeout=3000):
    """lattice optimum (numerator over DEN*VS) of every configuration: TLC enumerates, only values are emitted"""
    import re
    wd = tlc.scratch()
    try:
        defs = {'MCConfigs': '{' + ',\n   '.join(tlc.tla(tla_cfg(c)) for c in cfgs) + '}', 'MCRelax': '{}'}
        lines = ['SPECIFICATION Spec', 'CONSTANT Configs <- MCConfigs', 'CONSTANT Relax <- MCRelax', 'CONSTRAINT EmitVal', 'CHECK_DEADLOCK FALSE',
                 'INVARIANT ValDef', 'INVARIANT BalanceInv']
        tlc.write_mc(wd, name, 'EAOModel', defs, lines)
        r = tlc.run_tlc(wd, name, workers=workers, timeout=timeout, tags=(), json_payload=False)
        best = {}
        for m in re.finditer(r'<<"VAL", (\d+), (-?\d+)>>', r['out']):
            cid, v = int(m.group(1)), int(m.group(2))
            if cid not in best or v > best[cid]:
                best[cid] = v
        return best, dict(generated=r['generated'], distinct=r['distinct'], violated=r['violated'])
    finally:
        shutil.rmtree(wd, ignore_errors=True)


class Conformer:
    """binds one realisation of one cfg to the behaviours TLC emitted for that cfg"""

    def __init__(self, real, op=None):
        self.real = real
        self.cfg = real.cfg
        self.op = op if op is not None else real.setup()
        self.prob = Problem(self.op)
        self.vi = VarIndex(self.op)
        self.scale = self.cfg['DEN'] * self.cfg['VS']
        self.asset_vars = self._asset_vars()

    def _asset_vars(self):
        """variables of each asset (by mapping rows), for per-asset value -c_a.x_a"""
        m = self.op.mapping
        out = {}
        for i in range(len(self.cfg['assets'])):
            nm = self.real.names(i)
            if self.real.struct and i in self.real.struct:
                sel = (m['asset'] == self.real.struct_name()) & (m['internal_asset'] == nm)
            else:
                sel = m['asset'] == nm
            out[i] = np.unique(m.index[sel].values).astype(int)
        return out

    def positive(self, beh):
        """a complete strict behaviour must be feasible and priced identically.  Returns '' or a description."""
        pins = pins_for(self.real, self.vi, beh)
        if pins.missing:
            return 'no variable for spec decision %s' % (pins.missing[:2],)
        if pins.conflict:
            return 'legs sharing a variable disagree (behaviour not representable)'
        st, val, x = self.prob.solve(pins)
        if st != 'optimal':
            return 'spec behaviour infeasible in implementation (%s)' % st
        want = beh['val'] / self.scale
        tol = 1e-7 * max(1.0, abs(want))
        if len(pins) == self.prob.n:
            if abs(val - want) > tol:
                return 'value differs: implementation %.9g, specification %.9g' % (val, want)
            for i, vars_ in self.asset_vars.items():
                av = float(-self.prob.c[vars_] @ x[vars_]) if len(vars_) else 0.0
                aw = beh['aval'][i] / self.scale
                if abs(av - aw) > 1e-7 * max(1.0, abs(aw)):
                    return 'asset %d value differs: implementation %.9g, specification %.9g' % (i + 1, av, aw)
        else:
            # free variables (mode booleans ...) carry no cost in the spec: best completion must price like the spec
            if abs(val - want) > tol:
                return 'value differs (free completion): implementation %.9g, specification %.9g' % (val, want)
        return ''

    def negative(self, beh, positive_prefix_keys):
        """a near-miss prefix must have no feasible completion.  Returns (verdict, description):
        verdict in {'rejected', 'skipped', 'ACCEPTED'}"""
        pins = pins_for(self.real, self.vi, beh, upto=beh['at'])
        if pins.conflict or pins.missing:
            return 'rejected', 'not representable'
        k = (beh['at'], key_of(pins))
        if k in positive_prefix_keys:
            return 'skipped', 'coincides with a strict behaviour after projection'
        st, val, x = self.prob.solve(pins)
        if st == 'infeasible':
            return 'rejected', ''
        if st == 'optimal':
            self.last_completion = x
            return 'ACCEPTED', 'near-miss (%s at step %d) has a feasible completion' % (beh['fault'], beh['at'])
        return 'skipped', st

    def prefix_keys(self, behs):
        keys = set()
        for b in behs:
            for n in range(0, len(b['steps']) + 1):
                keys.add((n, key_of(pins_for(self.real, self.vi, b, upto=n))))
        return keys

    def optimum(self):
        st, val, x = self.prob.solve()
        return st, val, x

    def on_lattice(self, x, tol=1e-6):
        """is x a point the specification enumerates?  (all lattice steps 1: integral volumes, order fractions k/fden)"""
        for i, a in enumerate(self.cfg['assets']):
            v = x[self.asset_vars[i]]
            if a['kind'] == 'orderbook':
                v = v * a['fden']
            elif a.get('q', 1) != 1:
                return False
            if len(v) and np.abs(v - np.round(v)).max() > tol:
                return False
        return True


def conform_family(cfgs, behs_pos, behs_neg, make_real, on_violation, counters, check_optimum=True, max_neg_per_cfg=None):
    """Replay all behaviours of a family.  make_real(cfg) -> Real (or list of Reals).
    on_violation(kind, cfg, real, beh, why) is called for every disagreement."""
    for cfg in cfgs:
        reals = make_real(cfg)
        if not isinstance(reals, (list, tuple)):
            reals = [reals]
        pos = behs_pos.get(cfg['id'], [])
        neg = behs_neg.get(cfg['id'], []) if behs_neg else []
        for real in reals:
            try:
                cf = Conformer(real)
            except tlc.MachineryError:
                raise
            except Exception as e:   # set-up raised: the configuration is in the documented domain, so this is a finding
                on_violation('setup_raises', cfg, real, None, '%s: %s' % (type(e).__name__, e))
                counters['setup_raises'] += 1
                continue
            counters['realisations'] += 1
            best = None
            for b in pos:
                counters['pos'] += 1
                why = cf.positive(b)
                if why:
                    counters['pos_bad'] += 1
                    on_violation('positive', cfg, real, b, why)
                if best is None or b['val'] > best:
                    best = b['val']
            if neg:
                keys = cf.prefix_keys(pos)
                for b in (neg if max_neg_per_cfg is None else neg[:max_neg_per_cfg]):
                    verdict, why = cf.negative(b, keys)
                    counters['neg_' + verdict] += 1
                    counters['fault_' + b['fault']] += 1
                    if verdict == 'ACCEPTED':
                        on_violation('negative', cfg, real, b, why)
            if check_optimum:
                st, val, x = cf.optimum()
                if st == 'infeasible':
                    if best is not None:
                        counters['opt_bad'] += 1
                        on_violation('optimum', cfg, real, None, 'implementation infeasible but specification has behaviours')
                elif st == 'optimal':
                    if best is None:
                        if all(a.get('q', 1) == 1 for a in cfg['assets']):
                            counters['opt_bad'] += 1
                            on_violation('optimum', cfg, real, None, 'implementation feasible (value %.9g) but specification has no behaviour' % val)
                        else:
                            counters['opt_bounded_only'] += 1      # a coarse candidate lattice may simply miss every feasible point
                    else:
                        lat = best / cf.scale
                        if val < lat - 1e-6 * max(1, abs(lat)):
                            counters['opt_bad'] += 1
                            on_violation('optimum', cfg, real, None, 'implementation optimum %.9g below lattice optimum %.9g' % (val, lat))
                        elif cf.on_lattice(x):
                            counters['opt_exact'] += 1
                            if val > lat + 1e-6 * max(1, abs(lat)):
                                counters['opt_bad'] += 1
                                on_violation('optimum', cfg, real, None, 'implementation optimum %.9g (on the lattice) above lattice optimum %.9g' % (val, lat))
                        else:
                            counters['opt_bounded_only'] += 1
