"""Call histories (C10 / C11): TLC explores the lifecycle model EAOHistory and dumps its labelled state graph; the
histories derived from it are executed on real objects, every returned problem being compared with what brand-new
objects return for the same arguments."""
import copy
import datetime as dt
import os
import re
import shutil
import subprocess

import numpy as np
import pandas as pd

from . import tlc
from .realise import eao, quiet

A = eao.assets
S0 = dt.datetime(2021, 1, 4)
H = dt.timedelta(hours=1)


# ------------------------------------------------------------------------------------------ TLC graph
def explore(assets, grids, zone, prices, dict_assets, last_asset, max_depth):
    """run TLC on EAOHistory, return (states: id -> dict, edges: list of (src, dst, action, args), init id, stats)"""
    wd = tlc.scratch()
    try:
        defs = {'MCZone': '[g \\in %s |-> %s]' % (tlc.tla(set(grids)), ' '.join(
            ['IF g = "%s" THEN "%s" ELSE' % (g, zone[g]) for g in grids[:-1]] + ['"%s"' % zone[grids[-1]]]))}
        lines = ['SPECIFICATION Spec', 'CONSTANT Assets = %s' % tlc.tla(set(assets)), 'CONSTANT Grids = %s' % tlc.tla(set(grids)),
                 'CONSTANT Zone <- MCZone', 'CONSTANT Prices = %s' % tlc.tla(set(prices)), 'CONSTANT DictAssets = %s' % tlc.tla(set(dict_assets)),
                 'CONSTANT LastAsset = "%s"' % last_asset, 'CONSTANT MaxDepth = %d' % max_depth,
                 'INVARIANT TypeOK', 'INVARIANT PortfolioOwnsGrid', 'PROPERTY FormMonotone', 'CHECK_DEADLOCK FALSE']
        tlc.write_mc(wd, 'MChist', 'EAOHistory', defs, lines)
        r = tlc.run_tlc(wd, 'MChist', workers=4, tags=(), extra_args=['-dump', 'dot,actionlabels', 'graph'])
        if r['violated']:
            raise tlc.MachineryError('EAOHistory violates its own property %s' % r['violated'])
        with open(os.path.join(wd, 'graph.dot')) as f:
            dot = f.read()
    finally:
        shutil.rmtree(wd, ignore_errors=True)
    states, edges = {}, []
    init = None
    for m in re.finditer(r'^(-?\d+) \[label="((?:[^"\\]|\\.)*)"(,style = filled)?', dot, re.M):
        sid = m.group(1)
        lab = m.group(2).replace('\\n', '\n').replace('\\"', '"').replace('\\\\', '\\')
        states[sid] = parse_state(lab)
        if m.group(3):
            init = sid
    for m in re.finditer(r'^(-?\d+) -> (-?\d+) \[label="((?:[^"\\]|\\.)*)"', dot, re.M):
        lab = m.group(3).replace('\\"', '"')
        mm = re.match(r'(\w+)(?:\((.*)\))?$', lab)
        args = [a.strip().strip('"') for a in mm.group(2).split(',')] if mm.group(2) else []
        edges.append((m.group(1), m.group(2), mm.group(1), args))
    return states, edges, init, dict(generated=r['generated'], distinct=r['distinct'])


def parse_state(lab):
    st = {}
    for line in lab.split('\n'):
        m = re.match(r'/\\ (\w+) = (.*)$', line.strip())
        if not m:
            continue
        k, v = m.group(1), m.group(2)
        if v.startswith('['):
            st[k] = dict(re.findall(r'(\w+) \|-> "(\w+)"', v))
        elif v.startswith('{'):
            st[k] = set(re.findall(r'"(\w+)"', v))
        elif v.startswith('"'):
            st[k] = v.strip('"')
        else:
            st[k] = int(v)
    return st


# ------------------------------------------------------------------------------------------ universe of real objects
GRID_DEFS = {
    'g1': dict(start=S0, T=6, freq='h', tz=None),
    'gs': dict(start=S0 + 3 * H, T=6, freq='h', tz=None, mtu='min'),      # another horizon AND another main time unit
    'gz': dict(start=S0, T=6, freq='h', tz='CET'),
    'gf': dict(start=S0, T=3, freq='2h', tz=None),
}


class Universe:
    """brand-new objects: grids, prices, assets (user dictionaries kept with pristine copies), portfolio"""

    def __init__(self, dict_form='end'):
        self.grids = {}
        self.prices = {}
        for g, d in GRID_DEFS.items():
            step = H if d['freq'] == 'h' else 2 * H
            self.grids[g] = A.Timegrid(d['start'], d['start'] + d['T'] * step, freq=d['freq'], timezone=d['tz'], main_time_unit=d.get('mtu', 'h'))
            self.prices[g] = {'p1': {'p': np.array([1., 5., 2., 6., 3., 4.][:d['T']]), 'q': np.array([3.] * d['T'])},
                              'p2': {'p': np.array([4., 1., 3., 2., 5., 1.][:d['T']]), 'q': np.array([2.] * d['T'])}}
        n1 = A.Node('n1')
        starts = [S0 - 2 * H, S0 + 2 * H, S0 + 5 * H]
        self.user_dicts = {}
        hi = {'start': list(starts), 'values': [2., 1., 3.]}
        lo = {'start': list(starts), 'values': [-1., -2., 0.]}
        if dict_form == 'end':
            hi['end'] = [S0 + 2 * H, S0 + 5 * H, S0 + 12 * H]
            lo['end'] = [S0 + 2 * H, S0 + 5 * H, S0 + 12 * H]
        self.user_dicts['a1.max_cap'] = hi
        self.user_dicts['a1.min_cap'] = lo
        take = {'start': [S0], 'end': [S0 + 9 * H], 'values': [4.]}
        self.user_dicts['a1.max_take'] = take
        self.pristine = copy.deepcopy(self.user_dicts)
        self.assets = {
            'a1': A.Contract(name='a1', nodes=n1, price='p', min_cap=lo, max_cap=hi, extra_costs=0.5, max_take=take, start=S0 + 1 * H, end=S0 + 7 * H),
            'a2': A.Storage('a2', n1, size=3, cap_in=1, cap_out=2, start_level=1, end_level=1, eff_in=0.5, cost_in=0.25, start=S0 + 2 * H, end=S0 + 8 * H),
            'a0': A.SimpleContract(name='a0', nodes=n1, price='q', min_cap=-4, max_cap=4),
            # inner asset of a structured asset whose own window is wider than the wrapper's
            'a3': A.SimpleContract(name='a3', nodes=n1, price='p', min_cap=0, max_cap=1, extra_costs=0.25, start=S0 - 1 * H, end=S0 + 9 * H),
        }
        n2 = A.Node('n2')
        take_arr = {'start': [S0 - 2 * H], 'end': [S0 + 12 * H], 'values': np.array([7.5])}
        self.user_dicts['a4.max_take'] = take_arr
        self.pristine = copy.deepcopy(self.user_dicts)
        self.assets['a2'].wacc = 0.5      # another discount rate than its neighbours on the shared grid
        self.extra = [A.OrderBook('ob', n1, orders={'start': [pd.Timestamp(S0 + 0 * H), pd.Timestamp(S0 + 4 * H), pd.Timestamp(S0 + 7 * H)],
                                                    'end': [pd.Timestamp(S0 + 3 * H), pd.Timestamp(S0 + 8 * H), pd.Timestamp(S0 + 11 * H)],
                                                    'capa': [1., -1., 2.], 'price': [2., 6., 1.]}),
                      A.ExtendedTransport('a4', [n1, n2], min_cap=0., max_cap=2., efficiency=0.5, costs_const=0.1, max_take=take_arr),
                      A.SimpleContract(name='a5', nodes=n2, price='q', min_cap=-3, max_cap=0, extra_costs=0.1),
                      # durations and a start profile in main time units, profile frequency left at its default (the grid's main time unit)
                      A.Plant(name='pl', nodes=[n2], min_cap=1., max_cap=2., extra_costs=0.5, start_costs=1., min_runtime=2, time_already_off=1,
                              start_ramp_lower_bounds=[0.5, 1.], start_ramp_upper_bounds=[1., 2.], shutdown_ramp_lower_bounds=[0.5], shutdown_ramp_upper_bounds=[1.])]
        self.wrapper = eao.portfolio.StructuredAsset(name='sa', nodes=[n1], portfolio=eao.portfolio.Portfolio([self.assets['a3']]),
                                                     start=S0 + 2 * H, end=S0 + 6 * H)
        self.portfolio = eao.portfolio.Portfolio([self.assets['a0'], self.assets['a1'], self.assets['a2']] + self.extra + [self.wrapper])
        self.last = None          # (op, prices key, grid key, kind)

    def dicts_changed(self):
        """which user dictionaries differ from their pristine copies (diagnostic)"""
        out = []
        for k, d in self.user_dicts.items():
            if not same_obj(d, self.pristine[k]):
                out.append(k)
        return out


def same_obj(a, b):
    try:
        if isinstance(a, dict):
            return isinstance(b, dict) and a.keys() == b.keys() and all(same_obj(a[k], b[k]) for k in a)
        if isinstance(a, (list, tuple)):
            return isinstance(b, (list, tuple)) and len(a) == len(b) and all(same_obj(x, y) for x, y in zip(a, b))
        if isinstance(a, (pd.DatetimeIndex, np.ndarray)):
            return type(a) is type(b) and len(a) == len(b) and all(same_obj(x, y) for x, y in zip(list(a), list(b)))
        if isinstance(a, (pd.Timestamp, dt.datetime)):
            return type(a) is type(b) and a == b and (getattr(a, 'tzinfo', None) is None) == (getattr(b, 'tzinfo', None) is None)
        return a == b
    except Exception:
        return False


def digest(op):
    """canonical content of a problem (or of a result): nested tuples of rounded numbers"""
    if isinstance(op, str):
        return ('status', op)
    if hasattr(op, 'ops'):
        return ('split',) + tuple(digest(o) for o in op.ops) + (digest_mapping(op.mapping),)
    A_ = op.A
    if A_ is None:
        trip = ()
    else:
        coo = A_.tocoo()
        trip = tuple(sorted((int(i), int(j), round(float(v), 9)) for i, j, v in zip(coo.row, coo.col, coo.data) if v != 0))
    return ('op', tuple(np.round(op.c, 9)), tuple(np.round(op.l, 9)), tuple(np.round(op.u, 9)), trip,
            tuple(np.round(op.b, 9)) if op.b is not None else (), op.cType or '', digest_mapping(op.mapping))


def digest_mapping(m):
    if m is None or len(m) == 0:
        return ()
    cols = [c for c in ('asset', 'node', 'type', 'time_step', 'var_name', 'disp_factor') if c in m.columns]
    rows = []
    for idx, row in zip(m.index.values, m[cols].values):
        rows.append((int(idx),) + tuple(round(float(x), 9) if isinstance(x, (float, np.floating)) and not np.isnan(x) else str(x) for x in row))
    return tuple(rows)


class Expected(Exception):
    """a documented error (asset without grid)"""


def perform(U, action, args, state):
    """execute one model action on universe U (model state BEFORE the action given for grid resolution).
    Returns a digest; raises whatever the implementation raises."""
    with quiet():
        if action == 'AssetSetup':
            a, g, p = args
            return digest(U.assets[a].setup_optim_problem(U.prices[g][p], U.grids[g]))
        if action == 'AssetSetupNoGrid':
            a, p = args
            g = state['agrid'][a]
            if g == 'none':
                try:
                    U.assets[a].setup_optim_problem({'p': np.zeros(6), 'q': np.zeros(6)})
                except Exception:
                    return ('documented_error',)
                return ('no_error_without_grid',)
            return digest(U.assets[a].setup_optim_problem(U.prices[g][p]))
        if action == 'PortfolioSetup':
            g, p = args
            op = U.portfolio.setup_optim_problem(U.prices[g][p], U.grids[g])
            U.last = (op, p, g, 'mono')
            return digest(op)
        if action == 'PortfolioSetupNoGrid':
            p, = args
            g = state['pgrid']
            op = U.portfolio.setup_optim_problem(U.prices[g][p])
            U.last = (op, p, g, 'mono')
            return digest(op)
        if action == 'PortfolioSplit':
            g, p = args
            op = U.portfolio.setup_split_optim_problem(U.prices[g][p], U.grids[g], interval_size='3h')
            U.last = (op, p, g, 'split')
            return digest(op)
        if action == 'CostSamples':
            g, = args
            cs = U.portfolio.create_cost_samples([U.prices[g]['p1'], U.prices[g]['p2']], U.grids[g])
            return ('cost_samples',) + tuple(tuple(np.round(np.asarray(c, float), 9)) for c in cs)
        if action == 'Optimize':
            op = U.last[0]
            res = op.optimize(solver='SCIPY')
            if isinstance(res, str):
                return ('status', res)
            # EAOHistory.OutputDefined: the tables are specified only while every asset still refers to the problem's grid
            if state and 'agrid' in state and any(g != state.get('pgrid') for g in state['agrid'].values()):
                return ('result_only', round(float(res.value), 7), tuple(np.round(np.asarray(res.x, float), 6)))
            def tables(o):
                pr = o.get('prices')
                if pr is not None:      # (the second report is asked to attach the input prices as well: only the nodal-price columns are compared)
                    pr = pr[[c for c in pr.columns if str(c).startswith('nodal price')]]
                    if len(pr.columns) == 0:
                        pr = None
                return (tuple(map(tuple, np.round(o['dispatch'].values.astype(float), 6))), tuple(map(tuple, np.round(o['DCF'].values.astype(float), 6))),
                        tuple(map(tuple, np.nan_to_num(np.round(pr.values.astype(float), 6), nan=-12345.0))) if pr is not None else ())
            out = eao.io.extract_output(U.portfolio, op, res)
            t1 = tables(out)
            # reporting is a function of (portfolio, problem, result): asking again for the same result must give the same tables
            t2 = tables(eao.io.extract_output(U.portfolio, op, res, U.prices[U.last[2]][U.last[1]]))
            if t1 != t2:
                return ('report_changes_when_repeated', [k for k, (a, b) in zip(('dispatch', 'DCF', 'prices'), zip(t1, t2)) if a != b])
            return ('result', round(float(res.value), 7), tuple(np.round(np.asarray(res.x, float), 6))) + t1[:2]
        if action == 'SaveLoad':
            a, = args
            s = eao.serialization.to_json(U.assets[a])
            b = eao.serialization.load_from_json(s)
            f = Universe()
            return digest(b.setup_optim_problem(f.prices['g1']['p1'], f.grids['g1']))
    raise tlc.MachineryError('unknown action ' + action)


def fresh(action, args, state, last, dict_form='end'):
    """what brand-new objects return for the same arguments (grids an object refers to are resolved from the model state)"""
    U = Universe(dict_form)
    with quiet():
        if action == 'AssetSetupNoGrid':
            a, p = args
            g = state['agrid'][a]
            if g == 'none':
                return ('documented_error',)
            return digest(U.assets[a].setup_optim_problem(U.prices[g][p], U.grids[g]))
        if action == 'PortfolioSetupNoGrid':
            p, = args
            g = state['pgrid']
            return digest(U.portfolio.setup_optim_problem(U.prices[g][p], U.grids[g]))
        if action == 'Optimize':
            _, p, g, kind = last
            if kind == 'mono':
                U.last = (U.portfolio.setup_optim_problem(U.prices[g][p], U.grids[g]), p, g, kind)
            else:
                U.last = (U.portfolio.setup_split_optim_problem(U.prices[g][p], U.grids[g], interval_size='3h'), p, g, kind)
            return perform(U, 'Optimize', args, state)
        return perform(U, action, args, state)
