"""Abstract configuration (the `cfg` record TLC works on)  ->  EAO objects, through public constructors only.

A *realisation* is a dict of independent choices the specification knows nothing about:
  calendar : key of CALENDARS (grid start, tick length, freq, zone)
  mtu      : main time unit of the EAO grid ('h', 'd', 'min', 's': pandas units only -- EAO takes pd.Timedelta(1, main_time_unit))
  names    : function index -> asset name          nodes: function node -> node name
  order    : permutation of asset indices
  route    : 'mono' | 'split:<interval>' | 'struct:<i,j,..>' | 'io'
  form     : 'col' (price-column names) | 'dict' (interval dicts) | 'scalar' (where constant)
The harness asserts that the real Timegrid has exactly cfg.dt (in ticks); otherwise MachineryError.
"""
import contextlib
import io
import os
import sys
import warnings

import numpy as np
import pandas as pd

warnings.filterwarnings('ignore')
REPO = os.environ.get('EAO_REPO', '/repo')
if REPO not in sys.path:
    sys.path.insert(0, REPO)
import eaopack as eao  # noqa: E402

from .tlc import MachineryError  # noqa: E402

CALENDARS = {
    # name: (start, tick, freq, tz)
    'h':      ('2021-01-04 00:00', '1h', 'h', None),
    'h_cet':  ('2021-01-04 00:00', '1h', 'h', 'CET'),
    '2h':     ('2021-01-04 00:00', '2h', '2h', None),
    'h2':     ('2021-01-04 00:00', '1h', '2h', None),         # dt = 2 ticks
    'd':      ('2021-01-04 00:00', '1h', 'd', None),          # dt = 24 ticks
    'dd':     ('2021-01-04 00:00', '1D', 'd', None),          # dt = 1 tick (a day)
    'spring': ('2021-03-27 00:00', '1h', 'd', 'CET'),         # dt = 24, 23, 24, ...
    'fall':   ('2021-10-30 00:00', '1h', 'd', 'CET'),         # dt = 24, 25, 24, ...
    'spring_late': ('2021-03-26 00:00', '1h', 'd', 'CET'),    # dt = 24, 24, 23, 24, ... (the short day is the FIRST day of the second two-day step)
    'y':      ('2021-01-01 00:00', '365D', '365d', None),     # dt = 1 tick = 365 days (exact discounting with wacc = 1)
    'q15':    ('2021-01-04 00:00', '15min', '15min', None),
    'month':  ('2021-01-01 00:00', '1D', 'MS', None),         # dt = 31, 28, 31, 30 ...
}


def calendar_for(cfg):
    """a calendar whose grid has exactly cfg.dt (cfg['cal'] overrides)"""
    if cfg.get('cal'):
        return cfg['cal']
    dt = list(cfg['dt'])
    T = len(dt)
    if all(d == 1 for d in dt):
        return 'h'
    if all(d == 2 for d in dt):
        return 'h2'
    if all(d == 24 for d in dt):
        return 'd'
    if dt == ([24, 23] + [24] * T)[:T] and T >= 2:
        return 'spring'
    if dt == ([24, 25] + [24] * T)[:T] and T >= 2:
        return 'fall'
    if dt == [31, 28, 31, 30, 31, 30, 31, 31, 30, 31, 30, 31][:T]:
        return 'month'
    raise MachineryError('no calendar realises dt=%s' % dt)


@contextlib.contextmanager
def quiet():
    with contextlib.redirect_stdout(io.StringIO()):
        yield


class Real:
    """One realisation of a cfg: timegrid, prices, assets, portfolio (built lazily)."""

    def __init__(self, cfg, calendar=None, mtu='h', names=None, nodes=None, order=None, form='col',
                 wacc=None, struct=None, scaled=None):
        self.cfg = cfg
        calendar = calendar or calendar_for(cfg)
        self.calendar = calendar
        self.mtu = mtu
        self.form = form
        self.names = names or (lambda i: 'a%d' % (i + 1))
        self.nodenames = nodes or (lambda n: n)
        self.order = list(order) if order is not None else list(range(len(cfg['assets'])))
        self.struct = struct          # list of asset indices wrapped in one StructuredAsset (or None)
        self.scaled = scaled          # dict index -> (scale, norm, fix) : wrap in ScaledAsset at fixed scale
        start, tick, freq, tz = CALENDARS[calendar]
        self.tz = tz
        self.tick = pd.Timedelta(tick)
        self.start = pd.Timestamp(start, tz=tz)
        self.freq = freq
        T = cfg['T']
        # end of grid = start + sum(dt) ticks in absolute time
        self.end = self.abs_time(cfg['tp'][T])
        self.r = self.tick / pd.Timedelta(1, mtu)            # main time units per tick
        self.wacc = wacc if wacc is not None else cfg.get('wacc', 0.)
        self.timegrid = self.make_grid()
        dt_ticks = self.timegrid.dt / self.r
        if self.timegrid.T != T or not np.allclose(dt_ticks, cfg['dt'], rtol=0, atol=1e-9):
            raise MachineryError('calendar %s does not realise dt=%s (got T=%s dt=%s)' % (calendar, cfg['dt'], self.timegrid.T, dt_ticks))
        self.prices = {}
        self.nodeobjs = {n: eao.assets.Node(self.nodenames(n)) for n in sorted(cfg['nodes'])}
        self.assets = None

    # ---- time helpers
    def abs_time(self, ticks):
        """timestamp `ticks` ticks (absolute elapsed time) after grid start"""
        if self.tz is None:
            return self.start + ticks * self.tick
        return (self.start.tz_convert('UTC') + ticks * self.tick).tz_convert(self.tz)

    def step_time(self, s):
        """timestamp of the start of step s (1-based; s may lie outside 1..T+1)"""
        T = self.cfg['T']
        tp = self.cfg['tp']
        if 1 <= s <= T + 1:
            return self.abs_time(tp[s - 1])
        nominal = self.cfg['dt'][0] if s < 1 else self.cfg['dt'][-1]
        if s < 1:
            return self.abs_time(-(1 - s) * nominal)
        return self.abs_time(tp[T] + (s - T - 1) * nominal)

    def make_grid(self):
        return eao.assets.Timegrid(self.start.tz_localize(None) if self.tz else self.start,
                                   self.end.tz_localize(None) if self.tz else self.end,
                                   freq=self.freq, main_time_unit=self.mtu, timezone=self.tz)

    def user_time(self, ts):
        """dates as a user would write them (naive wall-clock in the grid's zone)"""
        return ts.tz_localize(None).to_pydatetime() if ts.tzinfo is not None else ts.to_pydatetime()

    # ---- parameters
    def series(self, key, arr, a, per_tick_rate=False):
        """a per-step parameter given as price column / interval dict; rates are converted to the main time unit"""
        v = np.asarray(arr, float)
        if per_tick_rate:
            v = v / self.r
        if self.form == 'scalar' and np.all(v == v[0]):
            return float(v[0])
        if self.form == 'dict':
            T = self.cfg['T']
            return {'start': [self.user_time(self.step_time(s)) for s in range(1, T + 1)],
                    'end': [self.user_time(self.step_time(s)) for s in range(2, T + 2)],
                    'values': [float(x) for x in v]}
        self.prices[key] = v
        return key

    def window(self, a):
        T = self.cfg['T']
        ws, we = a.get('rws', a['ws']), a.get('rwe', a['we'])      # (rws, rwe): window given to the object when a wrapper clips it
        # (form 'scalar' leaves out what coincides with the horizon; a start BEFORE the horizon is always given: it anchors a coarser frequency)
        st = None if (ws == 1 and self.form == 'scalar') else self.user_time(self.step_time(ws))
        en = None if (we >= T + 1 and self.form == 'scalar') else self.user_time(self.step_time(we))
        return st, en

    def takes(self, a, sense):
        tk = [t for t in a.get('takes', []) if t['sense'] == sense]
        if not tk:
            return None
        return {'start': [self.user_time(self.abs_time(t['s'])) for t in tk],
                'end': [self.user_time(self.abs_time(t['e'])) for t in tk],
                'values': [float(t['vol']) for t in tk]}

    def asset_wacc(self, a):
        return float(a.get('wacc', self.wacc))

    def freq_kwargs(self, a):
        kw = {}
        if a.get('freq'):
            kw['freq'] = a['freq']
        if a.get('periodicity'):
            kw['periodicity'] = a['periodicity']
            if a.get('periodicity_duration'):
                kw['periodicity_duration'] = a['periodicity_duration']
        return kw

    def build_asset(self, i):
        a = self.cfg['assets'][i]
        nm = self.names(i)
        if a.get('scale'):
            # the configuration states the asset AT the scale; the object is the base asset (capacities divided by scale/norm)
            # wrapped in a ScaledAsset whose scale is fixed (or free within [smin, smax] when 'scale_range' is given)
            sc, norm, fix = a['scale']
            f = norm / sc
            base = dict(a)
            base.pop('scale')
            for k in ('lo', 'hi'):
                if k in base:
                    base[k] = [v * f for v in base[k]] if isinstance(base[k], list) else base[k] * f
            for k in ('size', 'cin', 'cout', 'start', 'end', 'inflow'):
                if k in base:
                    base[k] = base[k] * f
            saved = self.cfg['assets'][i]
            self.cfg['assets'][i] = base
            try:
                bobj = self.build_asset(i)
            finally:
                self.cfg['assets'][i] = saved
            bobj.name = nm + '_base'
            smin, smax = a.get('scale_range', (sc, sc))
            st, en = self.window(dict(a, ws=a['fws'], we=a['fwe'], rws=a['fws'], rwe=a['fwe']))     # the wrapper's own window
            return eao.assets.ScaledAsset(name=nm, base_asset=bobj, start=st, end=en, wacc=self.asset_wacc(a), min_scale=float(smin),
                                          max_scale=float(smax), norm_scale=float(norm), fix_costs=float(fix) / self.r)
        N = self.nodeobjs
        k = a['kind']
        A = eao.assets
        if k == 'orderbook':
            # on zone-aware grids the order stamps may come in ANOTHER zone (the same instants, e.g. UTC stamps of an exchange feed)
            oz = getattr(self, 'order_zone', None)
            stamp = (lambda t: t.tz_convert(oz)) if (oz and self.tz) else (lambda t: t)
            od = {'start': [stamp(self.abs_time(o['s'])) for o in a['orders']],
                  'end': [stamp(self.abs_time(o['e'])) for o in a['orders']],
                  'capa': [float(o['capa']) / self.r for o in a['orders']],
                  'price': [float(o['price']) for o in a['orders']]}
            return A.OrderBook(name=nm, nodes=N[a['node']], wacc=self.asset_wacc(a), orders=od, full_exec=bool(a['fullexec']))
        st, en = self.window(a)
        common = dict(name=nm, start=st, end=en, wacc=self.asset_wacc(a))
        common.update(self.freq_kwargs(a))
        if k in ('contract', 'multi'):
            kw = dict(common)
            kw['price'] = self.series('p_' + nm, a['rawprice'] if 'rawprice' in a else a['price'], a) if any(a['price']) or 'rawprice' in a else None
            if isinstance(kw['price'], (float, dict)):       # price must be a column name
                self.prices['p_' + nm] = np.asarray(a.get('rawprice', a['price']), float)
                kw['price'] = 'p_' + nm
            if list(a['lo']) == list(a['hi']) and self.form == 'col':
                # a fixed profile (must-run / must-take): one time series named for both limits, as a user with one data column would do
                kw['min_cap'] = kw['max_cap'] = self.series('cap_' + nm, a['lo'], a, True)
            else:
                kw['min_cap'] = self.series('lo_' + nm, a['lo'], a, True)
                kw['max_cap'] = self.series('hi_' + nm, a['hi'], a, True)
            kw['extra_costs'] = float(a['ec'])
            mt, xt = self.takes(a, 'min'), self.takes(a, 'max')
            if k == 'contract':
                if mt is None and xt is None and not a.get('force_contract'):
                    return A.SimpleContract(nodes=N[a['node']], **kw)
                return A.Contract(nodes=N[a['node']], min_take=mt, max_take=xt, **kw)
            return A.MultiCommodityContract(nodes=[N[n] for n in a['mnodes']], min_take=mt, max_take=xt,
                                            factors_commodities=[f[0] / f[1] for f in a['factors']], **kw)
        if k == 'transport':
            kw = dict(common)
            kw.update(nodes=[N[a['n1']], N[a['n2']]], min_cap=float(a['lo']) / self.r, max_cap=float(a['hi']) / self.r,
                      efficiency=a['eff'][0] / a['eff'][1], costs_const=float(a['cost']))
            if any(a['costts']) or 'rawcostts' in a:
                self.prices['ct_' + nm] = np.asarray(a.get('rawcostts', a['costts']), float)
                kw['costs_time_series'] = 'ct_' + nm
            mt, xt = self.takes(a, 'min'), self.takes(a, 'max')
            if mt is None and xt is None:
                return A.Transport(**kw)
            return A.ExtendedTransport(min_take=mt, max_take=xt, **kw)
        if k == 'storage':
            kw = dict(common)
            nn = N[a['nin']] if a['nin'] == a['nout'] else [N[a['nin']], N[a['nout']]]
            kw.update(nodes=nn, size=float(a['size']), cap_in=a['cin'] / self.r, cap_out=a['cout'] / self.r,
                      start_level=float(a['start']), end_level=float(a['end']), inflow=a['inflow'] / self.r,
                      eff_in=a['eff'][0] / a['eff'][1], cost_in=float(a['costin']), cost_out=float(a['costout']),
                      cost_store=a['coststore'] / self.r)
            if a.get('block_size'):
                kw['block_size'] = a['block_size']
            if a['nosimult']:
                kw['no_simult_in_out'] = True
            if a['maxhold'] >= 0:
                # a limit of m ticks allows stretches of exactly m ticks.  Where a tick is not exactly representable in main time units
                # (an hour in days) summed step lengths and the limit differ by rounding, and "exactly at the limit" is not a question
                # about EAO but about floating point: there the limit is realised half a tick higher, which admits the same stretches
                # (all durations are whole ticks); under exactly representable units the limit itself is passed (knife edge included)
                exact = float(self.r).is_integer() or float(1. / self.r).is_integer() and (int(round(1. / self.r)) & (int(round(1. / self.r)) - 1)) == 0
                kw['max_store_duration'] = (a['maxhold'] if exact else a['maxhold'] + 0.5) * self.r
            return A.Storage(**kw)
        raise MachineryError('unknown asset kind ' + k)

    def build(self):
        """assets in realisation order, optionally wrapped; returns the portfolio"""
        objs = {i: self.build_asset(i) for i in range(len(self.cfg['assets']))}
        if self.scaled:
            for i, (s, norm, fix) in self.scaled.items():
                base = objs[i]
                objs[i] = eao.assets.ScaledAsset(name=base.name, base_asset=base, start=base.start, end=base.end,
                                                 wacc=base.wacc, min_scale=float(s), max_scale=float(s), norm_scale=float(norm),
                                                 fix_costs=float(fix) / self.r)
                base.name = base.name + '_base'
        lst = []
        if self.struct:
            inner = [objs[i] for i in self.order if i in self.struct]
            inner_nodes = set()
            for o in inner:
                inner_nodes.update(n.name for n in o.nodes)
            outer = [objs[i] for i in self.order if i not in self.struct]
            outer_nodes = set()
            for o in outer:
                outer_nodes.update(n.name for n in o.nodes)
            ext = [self.nodeobjs[n] for n in sorted(self.cfg['nodes']) if self.nodenames(n) in inner_nodes & outer_nodes]
            if not ext:   # at least one external node is required by the constructor
                ext = [self.nodeobjs[n] for n in sorted(self.cfg['nodes']) if self.nodenames(n) in inner_nodes][:1]
            self._ext_names = [n.name for n in ext]
            skw = {}
            if self.cfg.get('struct_window'):
                skw = dict(start=self.user_time(self.step_time(self.cfg['struct_window'][0])), end=self.user_time(self.step_time(self.cfg['struct_window'][1])))
            self._inner_portfolio = eao.portfolio.Portfolio(inner)
            sa = eao.portfolio.StructuredAsset(name=self.struct_name(), nodes=ext, portfolio=self._inner_portfolio, **skw)
            placed = False
            for i in self.order:
                if i in self.struct:
                    if not placed:
                        lst.append(sa)
                        placed = True
                else:
                    lst.append(objs[i])
        else:
            lst = [objs[i] for i in self.order]
        self.assets = objs
        self.portfolio = eao.portfolio.Portfolio(lst)
        return self.portfolio

    def struct_name(self):
        return getattr(self, '_struct_name', 'STRUCT')

    def struct_ext_nodes(self):
        if self.assets is None:
            self.build()
        return list(self._ext_names)

    def setup(self, **kw):
        if self.assets is None:
            self.build()
        with quiet():
            # lifecycle prefix: the same objects have been set up before (same grid object, other prices)
            if getattr(self, 'preflat', False) and self.struct:
                # lifecycle prefix: the very Portfolio object that is wrapped was set up on its own (flat, no skipped nodes) before
                self._inner_portfolio.setup_optim_problem(self.prices, self.timegrid)
            if getattr(self, 'prewrap', None):
                # lifecycle prefix: the same asset objects were wrapped before in a structured asset with a narrower window of its own
                # (and that wrapper was set up); wrapping must not leave anything on the assets it wrapped
                ws, we = self.prewrap
                tmp = eao.portfolio.StructuredAsset(name='TMPWRAP', nodes=[self.nodeobjs[n] for n in sorted(self.cfg['nodes'])],
                                                    portfolio=eao.portfolio.Portfolio([self.assets[i] for i in self.order]),
                                                    start=self.user_time(self.step_time(ws)), end=self.user_time(self.step_time(we)))
                eao.portfolio.Portfolio([tmp]).setup_optim_problem(self.prices, self.timegrid)
            for _ in range(getattr(self, 'presetups', 0)):
                self.portfolio.setup_optim_problem({k: v[::-1].copy() for k, v in self.prices.items()}, self.timegrid, **kw)
            self.op = self.portfolio.setup_optim_problem(self.prices, self.timegrid, **kw)
        return self.op

    def setup_split(self, interval):
        if self.assets is None:
            self.build()
        with quiet():
            self.op = self.portfolio.setup_split_optim_problem(self.prices, self.timegrid, interval_size=interval)
        return self.op
