"""Constructors for abstract configurations (the `cfg` records of EAOModel) and the families of them
enumerated by the checks.  Everything is integer data; the specification gives it meaning."""
import itertools
import math
from functools import reduce


def lcm(*xs):
    return reduce(lambda a, b: a * b // math.gcd(a, b), [x for x in xs if x], 1)


def _common(T, ws=1, we=None, q=1, disc=None, group=None, per=None, np_=0, takes=None, **extra):
    d = dict(ws=ws, we=(T + 1 if we is None else we), q=q, disc=list(disc) if disc else [1] * T,
             group=list(group) if group else [0] * T, per=list(per) if per else [0] * T, np=np_,
             takes=list(takes) if takes else [])
    d.update(extra)
    return d


def vec(x, T):
    return list(x) if isinstance(x, (list, tuple)) else [x] * T


def contract(T, node, lo, hi, price, ec=0, **kw):
    d = dict(kind='contract', node=node, lo=vec(lo, T), hi=vec(hi, T), price=vec(price, T), ec=ec)
    d.update(_common(T, **kw))
    return d


def multi(T, nodes, factors, lo, hi, price, ec=0, **kw):
    d = dict(kind='multi', node='_none_', mnodes=list(nodes), factors=[list(f) for f in factors],
             lo=vec(lo, T), hi=vec(hi, T), price=vec(price, T), ec=ec)
    d.update(_common(T, **kw))
    return d


def transport(T, n1, n2, lo, hi, eff=(1, 1), cost=0, costts=0, **kw):
    d = dict(kind='transport', n1=n1, n2=n2, lo=lo, hi=hi, eff=list(eff), cost=cost, costts=vec(costts, T))
    d.update(_common(T, **kw))
    return d


def storage(T, nin, nout=None, size=2, cin=1, cout=1, start=0, end=0, inflow=0, eff=(1, 1), costin=0, costout=0,
            coststore=0, blocks=(), nosimult=False, maxhold=-1, **kw):
    d = dict(kind='storage', nin=nin, nout=nout or nin, size=size, cin=cin, cout=cout, start=start, end=end,
             inflow=inflow, eff=list(eff), costin=costin, costout=costout, coststore=coststore,
             blocks=set(blocks), nosimult=bool(nosimult), maxhold=maxhold)
    d.update(_common(T, **kw))
    return d


def orderbook(T, node, orders, fullexec=False, fden=2, disc=None):
    return dict(kind='orderbook', node=node, orders=[dict(s=o[0], e=o[1], capa=o[2], price=o[3]) for o in orders],
                fullexec=bool(fullexec), fden=fden, disc=list(disc) if disc else [1] * T, ws=1, we=T + 1)


def make_cfg(cid, T, assets, dt=None, DEN=1, **extra):
    dt = list(dt) if dt else [1] * T
    tp = [0]
    for d in dt:
        tp.append(tp[-1] + d)
    nodes = set()
    dens = []
    vs = []
    for a in assets:
        k = a['kind']
        if k in ('contract', 'orderbook'):
            nodes.add(a['node'])
        if k == 'multi':
            nodes.update(a['mnodes'])
            dens += [f[1] for f in a['factors']]
        if k == 'transport':
            nodes.update([a['n1'], a['n2']])
            dens.append(a['eff'][1])
        if k == 'storage':
            nodes.update([a['nin'], a['nout']])
            vs.append(a['eff'][1])
        if k == 'orderbook':
            dens.append(a['fden'])
            vs.append(a['fden'])
    cfg = dict(id=cid, T=T, dt=dt, tp=tp, D=lcm(*dens), VS=lcm(*vs), DEN=DEN, nodes=nodes, assets=list(assets), split=set(), refines=False)
    cfg.update(extra)
    return cfg


def tla_cfg(cfg):
    """the part of a cfg the specification sees (realisation hints such as raw prices / freq strings are dropped)"""
    keep_cfg = ('id', 'T', 'dt', 'tp', 'D', 'VS', 'DEN', 'nodes', 'assets', 'split', 'refines')
    drop_asset = ('rawprice', 'rawcostts', 'freq', 'periodicity', 'periodicity_duration', 'block_size', 'wacc', 'force_contract', 'scale', 'scale_range', 'rws', 'rwe')
    out = {k: cfg[k] for k in keep_cfg}
    out['assets'] = [{k: v for k, v in a.items() if k not in drop_asset} for a in cfg['assets']]
    return out


def disc_pow2(T):
    """discount numerators over DEN = 2**T for wacc = 1 and one year per step (factor at the END of step s)"""
    return [2 ** (T - s) for s in range(1, T + 1)], 2 ** T
