"""Code -> spec: turn what the implementation returned into a trace for Trace_EAOModel, and run the batch
validation.  Fixed point: K units per 1.0; magnitudes are asserted to stay below 2^31."""
import json
import os
import re
import shutil

import numpy as np

from . import tlc
from .families import tla_cfg
from .project import VarIndex, asset_label
from .realise import eao, quiet

LIM = 2 ** 31 - 1


def fx(v, K):
    r = int(round(float(v) * K))
    if abs(r) > LIM:
        raise tlc.MachineryError('fixed-point overflow: %r * %d' % (v, K))
    return r


def jsonable(o):
    if isinstance(o, (set, frozenset)):
        return sorted(o)
    if isinstance(o, dict):
        return {k: jsonable(v) for k, v in o.items()}
    if isinstance(o, (list, tuple)):
        return [jsonable(v) for v in o]
    if isinstance(o, (np.integer,)):
        return int(o)
    return o


def legs_from_x(real, vi, x):
    """per step, per asset: the legs the solution vector implies (via the mapping rows at the leg's node)"""
    cfg = real.cfg
    T = cfg['T']
    ext = set(real.struct_ext_nodes()) if real.struct else None
    steps = []
    fr = []
    for i, a in enumerate(cfg['assets']):
        label, suffix, internal_prefix = asset_label(real, i)
        if a['kind'] == 'orderbook':
            f = []
            for o in range(len(a['orders'])):
                val = 0.0
                for (asset, vn, ts), rows in vi.rows.items():
                    if asset == label and (vn == o or vn == str(o) + suffix):
                        val = x[rows[0][0]]
                        break
                f.append(val * a['fden'])
            fr.append(f)
        else:
            fr.append([])
    for s in range(1, T + 1):
        ts = s - 1
        row = []
        for i, a in enumerate(cfg['assets']):
            label, suffix, internal_prefix = asset_label(real, i)

            def nl(nd):
                nd = real.nodenames(nd)
                return internal_prefix + nd if (internal_prefix and nd not in ext) else nd
            k = a['kind']
            if k == 'orderbook':
                row.append([])
            elif k == 'transport':
                v = sum(x[idx] * f / -1.0 for (_, idx, f) in vi.find(label, ['disp' + suffix], ts, nl(a['n1'])))
                row.append([v])
            else:
                if k == 'storage':
                    nin, nout, base = nl(a['nin']), nl(a['nout']), 1.0
                elif k == 'contract':
                    nin = nout = nl(a['node'])
                    base = 1.0
                else:
                    j = next(jj for jj, f in enumerate(a['factors']) if f[0] != 0)
                    nin = nout = nl(a['mnodes'][j])
                    base = a['factors'][j][0] / a['factors'][j][1]
                one = vi.find(label, ['disp' + suffix], ts, nin)
                if one:
                    q = sum(x[idx] * f / base for (_, idx, f) in one)
                    row.append([min(q, 0.0), max(q, 0.0)])
                else:
                    qi = sum(x[idx] * f / base for (_, idx, f) in vi.find(label, ['disp_in' + suffix], ts, nin))
                    qo = sum(x[idx] * f / base for (_, idx, f) in vi.find(label, ['disp_out' + suffix], ts, nout))
                    row.append([qi, qo])
        steps.append(row)
    return fr, steps


def make_trace(real, op, res, out, K=1000, tol=3, chk=('level', 'chdis'), tid=None):
    """trace dict for Trace_EAOModel from (OptimProblem, Results, extract_output dict)"""
    cfg = real.cfg
    vi = VarIndex(op)
    x = np.asarray(res.x, float)
    fr, legsteps = legs_from_x(real, vi, x)
    S = cfg['DEN'] * cfg['VS']
    disp = out['dispatch']
    iv = out['internal_variables']
    multi_node = len(real.portfolio.nodes) > 1
    steps = []
    unreported = False
    nodes = sorted(cfg['nodes'])
    for s in range(1, cfg['T'] + 1):
        ev = dict(legs=[[fx(v, K) for v in lg] for lg in legsteps[s - 1]], rflow=[], rlvl=[], rch=[], rdis=[])
        for i, a in enumerate(cfg['assets']):
            nm = real.names(i)
            rf = {}
            for n in nodes:
                col = (nm + ' (' + real.nodenames(n) + ')') if multi_node else nm
                if col in disp.columns and _asset_has_node(a, n):
                    rf[n] = fx(disp[col].iloc[s - 1] * cfg['D'], K)
                else:
                    rf[n] = 0
            ev['rflow'].append(rf)
            if a['kind'] == 'storage' and (nm + '_fill_level') in iv.columns:
                ev['rlvl'].append(fx(iv[nm + '_fill_level'].iloc[s - 1] * a['eff'][1], K))
                ev['rch'].append(fx(iv[nm + '_charge'].iloc[s - 1], K))
                ev['rdis'].append(fx(-iv[nm + '_discharge'].iloc[s - 1], K))     # EAO reports discharge with negative sign
            else:
                if a['kind'] == 'storage':
                    unreported = True      # e.g. a storage wrapped in a ScaledAsset: no level series exists, so none is compared
                ev['rlvl'].append(0)
                ev['rch'].append(0)
                ev['rdis'].append(0)
        steps.append(ev)
    if unreported:
        chk = tuple(x for x in chk if x not in ('level', 'chdis'))
    rdcf, cx = [], []
    m = op.mapping
    for i, a in enumerate(cfg['assets']):
        nm = real.names(i)
        rdcf.append(fx(out['DCF'][nm].sum() * S, K))
        vars_ = np.unique(m.index[m['asset'] == nm].values).astype(int)
        cx.append(fx(float(-np.asarray(op.c)[vars_] @ x[vars_]) * S, K))
    rval = fx(float(out['summary'].loc['value', 'Values']) * S, K)
    coef = 0
    for a in cfg['assets']:
        pmax = max([abs(p) for p in a.get('price', [0])] + [0]) + a.get('ec', 0) + a.get('cost', 0) + max(a.get('costts', [0]) or [0]) \
            + a.get('costin', 0) + a.get('costout', 0) + a.get('coststore', 0) * max(cfg['dt']) * cfg['T'] * 2
        if a['kind'] == 'orderbook':
            pmax = sum(abs(o['capa'] * o['price']) * max(cfg['dt']) for o in a['orders'])
        coef += (pmax + 1) * max(a['disc']) * cfg['VS'] * cfg['T'] * 2
    vtol = int(tol * coef + 1e-6 * abs(rval) + 2)
    return dict(tid=tid, cfg=jsonable(tla_cfg(cfg)), K=K, tol=tol, vtol=vtol, chk=list(chk),
                frac=[[fx(v, K) for v in f] for f in fr], steps=steps, rdcf=rdcf, cx=cx, rval=rval)


def _asset_has_node(a, n):
    k = a['kind']
    if k in ('contract', 'orderbook'):
        return a['node'] == n
    if k == 'multi':
        return n in a['mnodes']
    if k == 'transport':
        return n in (a['n1'], a['n2'])
    if k == 'storage':
        return n in (a['nin'], a['nout'])
    return False


def run_pipeline(real, solver='SCIPY', split=None):
    """the real pipeline: set-up -> optimize -> extract_output"""
    op = real.setup() if (not split or split == 'cfg') else real.setup_split(split)
    with quiet():
        res = op.optimize(solver=solver) if solver else op.optimize()
    if isinstance(res, str):
        return op, res, None
    with quiet():
        out = eao.io.extract_output(real.portfolio, op, res)
    return op, res, out


_VERDICT = re.compile(r'<<"VERDICT", (\d+), <<(-?\d+), "([^"]*)">>>>')


def validate_traces(traces, module='Trace_EAOModel', timeout=1800, keep=None, spec='Spec'):
    """one TLC run over a batch of traces; returns list of (line, verdict) in trace order, plus TLC stats"""
    if not traces:
        return [], dict(generated=0, distinct=0, wall=0)
    wd = tlc.scratch()
    try:
        tf = os.path.join(wd, 'traces.ndjson')
        with open(tf, 'w') as f:
            for t in traces:
                f.write(json.dumps(t) + '\n')
        lines = ['SPECIFICATION ' + spec, 'CONSTRAINT Mark', 'POSTCONDITION Post', 'CHECK_DEADLOCK FALSE']
        tlc.write_mc(wd, 'TV', module, {}, lines)
        r = tlc.run_tlc(wd, 'TV', workers=1, timeout=timeout, env_extra={'TRACE_FILE': tf}, tags=('VERDICT',), json_payload=False)
        verdicts = {}
        for mm in _VERDICT.finditer(r['out']):
            verdicts[int(mm.group(1))] = (int(mm.group(2)), mm.group(3))
        if len(verdicts) != len(traces):
            raise tlc.MachineryError('trace validation returned %d verdicts for %d traces:\n%s' % (len(verdicts), len(traces), r['out'][-3000:]))
        if keep:
            shutil.copy(tf, keep)
        return [verdicts[i + 1] for i in range(len(traces))], dict(generated=r['generated'], distinct=r['distinct'], wall=round(r['wall'], 2))
    finally:
        shutil.rmtree(wd, ignore_errors=True)


def portfolio_trace(portf, op, res, out, K=1000, tol=5, chk=('balance', 'accounting')):
    """trace for Trace_Portfolio (any asset types): reported dispatch per (asset, node, step), the dispatch implied by x
    through the mapping, the DCF table, -c_a.x_a and the value"""
    assets = portf.assets
    # the nodes are those the assets were DECLARED with (not the portfolio's own table of nodes, which is part of what is being checked)
    nodes = []
    for a in assets:
        for n in a.node_names:
            if n not in nodes:
                nodes.append(n)
    T = portf.timegrid.T
    m = op.mapping
    x = np.asarray(res.x, float)
    c = np.asarray(op.c, float)
    multi = len(nodes) > 1
    df = m['disp_factor'].fillna(1.).values if 'disp_factor' in m.columns else np.ones(len(m))
    xflow = np.zeros((len(assets), len(nodes), T))
    aidx = {a.name: i for i, a in enumerate(assets)}
    nidx = {n: i for i, n in enumerate(nodes)}
    for lab, an, nd, ts, ty, f in zip(m.index.values, m['asset'].values, m['node'].values, m['time_step'].values, m['type'].values, df):
        if ty == 'd' and an in aidx and nd in nidx and 0 <= int(ts) < T:
            xflow[aidx[an], nidx[nd], int(ts)] += x[int(lab)] * f
    # SLP problems report the average over samples for future steps; not handled here
    steps = []
    disp = out['dispatch']
    for t in range(T):
        ev = dict(rflow=[], xflow=[], dcf=[])
        for i, a in enumerate(assets):
            rf = []
            for n in nodes:
                col = a.name + ' (' + n + ')'
                if col not in disp.columns and len(a.node_names) == 1:
                    col = a.name          # (the report drops the node from the column name when the portfolio has one node only)
                rf.append(fx(disp[col].iloc[t], K) if (col in disp.columns and n in a.node_names) else 0)
            ev['rflow'].append(rf)
            ev['xflow'].append([fx(xflow[i, j, t], K) for j in range(len(nodes))])
            ev['dcf'].append(fx(out['DCF'][a.name].iloc[t], K))
        steps.append(ev)
    cx = []
    for a in assets:
        vars_ = np.unique(m.index[m['asset'] == a.name].values).astype(int)
        cx.append(fx(float(-c[vars_] @ x[vars_]), K))
    scale = max(1.0, float(np.abs(c).max()) if len(c) else 1.0)
    return dict(T=T, nodes=nodes, NA=len(assets), attach=[[nidx[n] + 1 for n in a.node_names if n in nidx] for a in assets],
                steps=steps, cx=cx, rval=fx(float(out['summary'].loc['value', 'Values']), K), tol=tol,
                vtol=int(tol * scale * (T + 2) * 2 + 1e-6 * K * abs(float(res.value)) + 2), names=[a.name for a in assets], chk=list(chk))
