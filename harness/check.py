"""Common frame of every registered check: counters, violations vs. known findings, evidence file, exit code."""
import collections
import json
import os
import re
import sys
import time
import traceback

from .tlc import MachineryError

ROOT = os.path.dirname(os.path.dirname(os.path.abspath(__file__)))
# evidence describes runs against /repo itself; self-tests on mutated scratch copies (EAO_REPO) write theirs under out/
EVIDENCE_DIR = os.path.join(ROOT, 'evidence') if os.environ.get('EAO_REPO', '/repo') == '/repo' else os.path.join(ROOT, 'out', 'evidence_scratch')
REPLAY_DIR = os.path.join(ROOT, 'out', 'replays')
FINDINGS_FILE = os.path.join(ROOT, 'known_findings.json')


def load_findings():
    if not os.path.exists(FINDINGS_FILE):
        return []
    with open(FINDINGS_FILE) as f:
        return json.load(f)


def _matches(match, sel):
    for k, v in match.items():
        if k not in sel:
            return False
        sv = sel[k]
        if isinstance(v, list):
            if sv not in v:
                return False
        elif sv != v:
            return False
    return True


class CheckRun:
    def __init__(self, prop, tier, seed, level='model_checking'):
        self.prop = prop
        self.tier = tier
        self.seed = seed
        self.level = level
        self.t0 = time.time()
        self.cnt = collections.Counter()
        self.states = 0
        self.transitions = 0
        self.traces = 0
        self.samples = []
        self.violations = []       # unlisted: (sel, what, replay path)
        self.known_hits = collections.OrderedDict()
        self.findings = [f for f in load_findings() if f['property'] == prop and f.get('status', 'open') == 'open']
        self.assumptions = []
        self.notes = {}
        self.distinct = set()
        self._vkeys = {}

    # ---- bookkeeping
    def add_tlc(self, stats):
        self.states += int(stats.get('distinct', 0))
        self.transitions += int(stats.get('generated', 0))

    def sample(self, obj, limit=4):
        if len(self.samples) < limit:
            self.samples.append(obj)

    def nontrivial(self, key):
        self.distinct.add(key)

    def violation(self, sel, what, replay_obj=None):
        """sel: attribute dict identifying what failed (matched against known_findings.json)"""
        for f in self.findings:
            if _matches(f['match'], sel):
                self.known_hits.setdefault(f['id'], [f, 0])
                self.known_hits[f['id']][1] += 1
                return 'known'
        key = json.dumps(sel, default=_default, sort_keys=True)
        if key in self._vkeys:
            self._vkeys[key] += 1
            return 'violation'
        self._vkeys[key] = 1
        path = None
        if len(self.violations) < 25:
            os.makedirs(REPLAY_DIR, exist_ok=True)
            path = os.path.join(REPLAY_DIR, '%s_%s_%d.json' % (self.prop, self.tier, len(self.violations)))
            with open(path, 'w') as fh:
                json.dump(dict(property=self.prop, sel=sel, what=what, replay=replay_obj), fh, indent=1, default=_default)
        self.violations.append((sel, what, path))
        return 'violation'

    # ---- end of run
    def finish(self, rule, explanation=None, exhaustive=False, extra=None):
        wall = time.time() - self.t0
        cov = dict(states=max(self.states, 0), transitions=max(self.transitions, 0),
                   traces_validated_against_impl=self.traces, samples=self.samples or ['(none)'],
                   evaluations=int(sum(v for k, v in self.cnt.items() if k.startswith('eval_')) or self.cnt.get('evaluations', 0)),
                   distinct_nontrivial=len(self.distinct), rule=rule, exhaustive=bool(exhaustive),
                   counters=dict(self.cnt), known_findings_observed={k: v[1] for k, v in self.known_hits.items()})
        if explanation:
            cov['explanation'] = explanation
        if extra:
            cov.update(extra)
        cov.update(self.notes)
        ev = dict(property_id=self.prop, tier=self.tier, seed=int(self.seed), level=self.level, coverage=cov,
                  assumptions=self.assumptions, wall_s=round(wall, 2), violations=int(sum(self._vkeys.values())))
        # evidence/ holds one file per LISTED property; unregistered growth checks keep theirs under out/
        evdir = EVIDENCE_DIR if re.match(r'^C\d\d$', self.prop) else os.path.join(ROOT, 'out', 'evidence_growth')
        os.makedirs(evdir, exist_ok=True)
        with open(os.path.join(evdir, self.prop + '.json'), 'w') as fh:
            json.dump(ev, fh, indent=1, default=_default)
        for fid, (f, n) in self.known_hits.items():
            print('KNOWN-FINDING: property=%s %s [%s, observed %d times]' % (self.prop, f['what_fails'], fid, n))
        for sel, what, path in self.violations[:25]:
            key = json.dumps(sel, default=_default, sort_keys=True)
            print('VIOLATION property=%s replay=%s  x%d %s  %s' % (self.prop, path, self._vkeys.get(key, 1), key, what))
        if len(self.violations) > 25:
            print('... %d further violations not listed' % (len(self.violations) - 25))
        print('%s %s: states=%d transitions=%d traces=%d evaluations=%d violations=%d known=%d wall=%.1fs' % (
            self.prop, self.tier, cov['states'], cov['transitions'], self.traces, cov['evaluations'],
            len(self.violations), len(self.known_hits), wall))
        return 1 if self.violations else 0


def _default(o):
    import numpy as np
    if isinstance(o, (set, frozenset)):
        return sorted(o)
    if isinstance(o, np.integer):
        return int(o)
    if isinstance(o, np.floating):
        return float(o)
    if isinstance(o, np.ndarray):
        return o.tolist()
    if callable(o):
        return getattr(o, '__name__', 'fn')
    return str(o)


def main_wrapper(fn):
    """run a check function(tier, seed) -> exit code, mapping machinery failures to exit 2"""
    def run(tier, seed):
        try:
            return fn(tier, seed)
        except MachineryError as e:
            print('MACHINERY-FAILURE: %s' % e)
            return 2
        except Exception:
            traceback.print_exc()
            print('MACHINERY-FAILURE: unexpected exception in the harness')
            return 2
    return run
