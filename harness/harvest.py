"""Test-suite harvesting (DESIGN.md 3.5): run the repository's own tests with the guarded hook in io.extract_output switched on
(EAO_VERIF_TRACE=<file>) and turn every reported output into a Trace_Portfolio trace.  The tests already build realistic
portfolios; their assertions are what is weak."""
import json
import os
import subprocess
import tempfile

import numpy as np

from . import tlc
from .realise import REPO

LIM = 2 ** 31 - 1


def run_tests(extra_args=''):
    fd, path = tempfile.mkstemp(prefix='eaoharvest_', suffix='.ndjson')
    os.close(fd)
    env = dict(os.environ, EAO_VERIF_TRACE=path)
    p = subprocess.run('/venv/bin/python -m pytest -q -p no:cacheprovider --timeout=900 -x ' + extra_args, shell=True, cwd=REPO, capture_output=True, text=True, env=env)
    recs = []
    with open(path) as f:
        for line in f:
            recs.append(json.loads(line))
    os.remove(path)
    summary = [l for l in p.stdout.splitlines() if 'passed' in l or 'failed' in l][-1:]
    return recs, summary


def to_trace(rec, tol_rel=1e-6, chk=('balance', 'accounting')):
    """Trace_Portfolio trace from a harvested record; K is chosen so that every number stays below 2^31"""
    if rec.get('event') != 'extract_output' or rec.get('slp'):
        return None
    T = rec['T']
    nodes = rec['nodes']
    assets = rec['assets']
    x = np.asarray(rec['x'], float)
    c = np.asarray(rec['c'], float)
    m = rec['map']
    big = max([1.0, abs(rec['value'])] + [abs(v) for col in rec['dispatch'].values() for v in col] + [abs(v) for col in rec['DCF'].values() for v in col])
    tot = max(big, sum(abs(v) for col in rec['DCF'].values() for v in col))
    K = 1000
    while tot * K * 4 > LIM and K > 1:
        K //= 10
    if tot * K * 4 > LIM:
        return None
    fx = lambda v: int(round(float(v) * K))
    aidx = {a['name']: i for i, a in enumerate(assets)}
    nidx = {n: i for i, n in enumerate(nodes)}
    xflow = np.zeros((len(assets), len(nodes), T))
    for lab, an, nd, ty, ts, f in zip(m['index'], m['asset'], m['node'], m['type'], m['time_step'], m['disp_factor']):
        if ty == 'd' and an in aidx and nd in nidx and 0 <= ts < T:
            xflow[aidx[an], nidx[nd], ts] += x[lab] * f
    multi = len(nodes) > 1
    steps = []
    for t in range(T):
        ev = dict(rflow=[], xflow=[], dcf=[])
        for i, a in enumerate(assets):
            rf = []
            for n in nodes:
                col = (a['name'] + ' (' + n + ')') if multi else a['name']
                rf.append(fx(rec['dispatch'][col][t]) if (col in rec['dispatch'] and n in a['nodes']) else 0)
            ev['rflow'].append(rf)
            ev['xflow'].append([fx(xflow[i, j, t]) for j in range(len(nodes))])
            ev['dcf'].append(fx(rec['DCF'][a['name']][t]) if a['name'] in rec['DCF'] else 0)
        steps.append(ev)
    cx = []
    idx = np.asarray(m['index'])
    masset = np.asarray(m['asset'])
    for a in assets:
        vars_ = np.unique(idx[masset == a['name']]).astype(int)
        cx.append(fx(float(-c[vars_] @ x[vars_])))
    # tolerance: the default interior-point solver leaves residuals of about 1e-6 relative to the magnitudes involved
    tol = max(3, int(tol_rel * big * K * 10) + 3)
    return dict(T=T, nodes=nodes, NA=len(assets), attach=[[nidx[n] + 1 for n in a['nodes'] if n in nidx] for a in assets], steps=steps, cx=cx,
                rval=fx(rec['value']), tol=tol, vtol=int(tol * (T + len(assets)) + 1e-5 * K * tot + 3), names=[a['name'] for a in assets], chk=list(chk), K=K)
