"""Spec -> code: is a pinned partial assignment feasible for the real assembled problem, and what is it worth?

The decision is made by an independent HiGHS call (scipy.optimize.milp) on the rows / bounds / boolean flags
read from the OptimProblem -- not by EAO's own optimize().  With every variable pinned it degenerates to
evaluating the rows.
"""
import numpy as np
import scipy.sparse as sp
from scipy.optimize import Bounds, LinearConstraint, milp

FEAS_TOL = 1e-7


class Problem:
    """numeric view of an OptimProblem (LP/MIP in EAO's conventions: maximise -c.x)"""

    def __init__(self, op):
        if hasattr(op, 'ops'):            # SplitOptimProblem: independent interval problems, variables concatenated
            parts = [Problem(o) for o in op.ops]
            self.c = np.concatenate([p.c for p in parts])
            self.l = np.concatenate([p.l for p in parts])
            self.u = np.concatenate([p.u for p in parts])
            self.n = len(self.c)
            self.A = sp.block_diag([p.A for p in parts], format='csr') if parts else sp.csr_matrix((0, 0))
            self.b = np.concatenate([p.b for p in parts])
            self.ct = ''.join(p.ct for p in parts)
            self.integrality = np.concatenate([p.integrality for p in parts])
            self.lo = np.concatenate([p.lo for p in parts])
            self.hi = np.concatenate([p.hi for p in parts])
            return
        self.c = np.asarray(op.c, float)
        self.l = np.asarray(op.l, float)
        self.u = np.asarray(op.u, float)
        self.n = len(self.c)
        if op.A is None or op.A.shape[0] == 0:
            self.A = sp.csr_matrix((0, self.n))
            self.b = np.zeros(0)
            self.ct = ''
        else:
            self.A = sp.csr_matrix(op.A)
            self.b = np.asarray(op.b, float)
            self.ct = op.cType
        self.integrality = np.zeros(self.n)
        m = op.mapping
        if 'bool' in m.columns:
            first = ~m.index.duplicated(keep='first')
            for idx, b in zip(m.index[first], m['bool'][first]):
                if b is True or b == True:  # noqa: E712
                    self.integrality[int(idx)] = 1
        ct = np.array(list(self.ct)) if len(self.ct) else np.array([], dtype=str)
        self.lo = np.where((ct == 'L') | (ct == 'S') | (ct == 'N'), self.b, -np.inf) if len(ct) else np.zeros(0)
        self.hi = np.where((ct == 'U') | (ct == 'S') | (ct == 'N'), self.b, np.inf) if len(ct) else np.zeros(0)

    def check_point(self, x, tol=FEAS_TOL):
        """'' if x satisfies bounds, rows by class and integrality, else a description"""
        if (x < self.l - tol).any() or (x > self.u + tol).any():
            j = int(np.argmax(np.maximum(self.l - x, x - self.u)))
            return 'bound var %d (x=%g not in [%g,%g])' % (j, x[j], self.l[j], self.u[j])
        if self.A.shape[0]:
            r = self.A @ x
            scale = np.maximum(1.0, np.abs(self.b))
            viol = np.maximum(self.lo - r, r - self.hi) / scale
            if (viol > tol).any():
                i = int(np.argmax(viol))
                return 'row %d class %s (lhs=%g, b=%g)' % (i, self.ct[i], r[i], self.b[i])
        ib = self.integrality > 0
        if ib.any() and (np.abs(x[ib] - np.round(x[ib])) > 1e-6).any():
            return 'integrality'
        return ''

    def solve(self, pins=None, sums=None, maximize=True, extra_bounds=None):
        """max -c.x subject to the problem and pins (dict var -> value).  Returns (status, value, x);
        status in {'optimal','infeasible','other'}.  A pin outside the variable's bounds is infeasible."""
        l = self.l.copy()
        u = self.u.copy()
        if pins:
            for j, v in pins.items():
                if v < l[j] - FEAS_TOL or v > u[j] + FEAS_TOL:
                    return 'infeasible', None, None
                l[j] = u[j] = min(max(v, self.l[j]), self.u[j])
        if extra_bounds:
            for j, (a, b) in extra_bounds.items():
                l[j] = max(l[j], a)
                u[j] = min(u[j], b)
                if l[j] > u[j] + FEAS_TOL:
                    return 'infeasible', None, None
        free = l < u
        if not free.any():
            x = l.copy()
            why = self.check_point(x)
            if why:
                return 'infeasible', None, None
            return 'optimal', float(-self.c @ x), x
        cons = []
        if self.A.shape[0]:
            cons.append(LinearConstraint(self.A, self.lo, self.hi))
        # HiGHS' presolve (scipy 1.14.1) wrongly declares some small feasible MIPs infeasible (observed on a storage
        # with holding-duration booleans): MIPs are solved without presolve, and an LP 'infeasible' is re-confirmed.
        mip = bool(self.integrality.any())
        res = milp(c=self.c if maximize else -self.c, constraints=cons, integrality=self.integrality,
                   bounds=Bounds(l, u), options={'presolve': not mip})
        if res.status == 2 and not mip:
            res = milp(c=self.c if maximize else -self.c, constraints=cons, integrality=self.integrality,
                       bounds=Bounds(l, u), options={'presolve': False})
        if res.status == 0:
            return 'optimal', float(-self.c @ res.x), res.x
        if res.status == 2:
            return 'infeasible', None, None
        return 'other:%s' % res.status, None, None


def lattice_ok(x, denom=1, tol=1e-6):
    y = np.asarray(x) * denom
    return bool(np.all(np.abs(y - np.round(y)) < tol))
