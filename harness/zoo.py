"""A zoo of small portfolios over ALL asset types (incl. those the reference model EAOModel does not cover: Plant,
CHP, CHP with minimum-load costs, ScaledAsset, StructuredAsset, LinkedAsset, coarse frequencies, periodicity).
Used by the generic layers: nodal balance (C01), value accounting (C04), mapping faithfulness (C07), purity (C10),
JSON round trip (C11), fixing a window (C15).  Every builder returns fresh objects: (name, portfolio, prices, timegrid)."""
import contextlib
import datetime as dt
import random

import numpy as np

from .realise import eao

A = eao.assets
START = dt.datetime(2021, 1, 4)

# renaming of assets / nodes (C09): every builder passes its literal names through NM / NN
_RENAME = dict(asset=None, node=None)


def NM(name):
    return _RENAME['asset'](name) if _RENAME['asset'] else name


def NN(name):
    return _RENAME['node'](name) if _RENAME['node'] else name


@contextlib.contextmanager
def renamed(asset=None, node=None):
    """build zoo portfolios with other asset / node names: `asset`, `node` are functions original name -> new name"""
    old = dict(_RENAME)
    _RENAME.update(asset=asset, node=node)
    try:
        yield
    finally:
        _RENAME.update(old)


def grid(T=6, freq='h', tz=None, mtu='h', start=START):
    step = {'h': dt.timedelta(hours=1), '2h': dt.timedelta(hours=2), 'd': dt.timedelta(days=1), '15min': dt.timedelta(minutes=15)}[freq]
    return A.Timegrid(start, start + T * step, freq=freq, main_time_unit=mtu, timezone=tz)


def prices_for(T, seed, names=('p1', 'p2', 'p3')):
    rnd = random.Random(seed)
    return {n: np.array([rnd.choice([1., 2., 3., 5., 8.]) for _ in range(T)]) for n in names}


def z_contracts(seed, T=6, names=('c1', 'c2', 'c3')):
    n1 = A.Node(NN('n1'))
    tg = grid(T)
    pr = prices_for(T, seed)
    a = [A.SimpleContract(NM(names[0]), n1, price='p1', min_cap=-2, max_cap=2, extra_costs=0.5),
         A.Contract(NM(names[1]), n1, price='p2', min_cap=0, max_cap=3, max_take={'start': [START], 'end': [START + dt.timedelta(hours=T)], 'values': [5.]}),
         A.SimpleContract(NM(names[2]), n1, price='p3', min_cap=-4, max_cap=4)]
    return 'contracts', eao.portfolio.Portfolio(a), pr, tg


def z_transport_storage(seed, T=6):
    n1, n2 = A.Node(NN('n1')), A.Node(NN('n2'))
    tg = grid(T)
    pr = prices_for(T, seed)
    a = [A.SimpleContract(NM('buy'), n1, price='p1', min_cap=-3, max_cap=3),
         A.Transport(NM('tr'), [n1, n2], min_cap=0, max_cap=2, efficiency=0.5, costs_const=0.25),
         A.Storage(NM('sto'), [n1, n2], size=3, cap_in=1, cap_out=2, start_level=1, end_level=1, eff_in=0.5, cost_in=0.1, inflow=0.25),
         A.SimpleContract(NM('sell'), n2, price='p2', min_cap=-2, max_cap=2, extra_costs=0.1)]
    return 'transport_storage', eao.portfolio.Portfolio(a), pr, tg


def z_multi(seed, T=6):
    n1, n2 = A.Node(NN('n1')), A.Node(NN('n2'))
    tg = grid(T)
    pr = prices_for(T, seed)
    a = [A.MultiCommodityContract(NM('mc'), [n1, n2], price='p1', min_cap=0, max_cap=2, factors_commodities=[1, 0.5], extra_costs=0.2),
         A.SimpleContract(NM('s1'), n1, price='p2', min_cap=-3, max_cap=3),
         A.SimpleContract(NM('s2'), n2, price='p3', min_cap=-3, max_cap=3)]
    return 'multi', eao.portfolio.Portfolio(a), pr, tg


def z_plant_fuel(seed, T=6):
    power, gas = A.Node(NN('power')), A.Node(NN('gas'))
    tg = grid(T)
    pr = prices_for(T, seed)
    a = [A.Plant(NM('plant'), [power, gas], min_cap=1, max_cap=3, extra_costs=0.5, ramp=2, start_costs=1., running_costs=0.2, min_runtime=2,
                 min_downtime=2, time_already_off=1, start_fuel=1., fuel_efficiency=0.5, consumption_if_on=0.5),
         A.SimpleContract(NM('market'), power, price='p1', min_cap=-5, max_cap=5),
         A.SimpleContract(NM('gas_supply'), gas, price='p2', min_cap=-20, max_cap=20)]
    return 'plant_fuel', eao.portfolio.Portfolio(a), pr, tg


def z_chp(seed, T=6):
    power, heat, gas = A.Node(NN('power')), A.Node(NN('heat')), A.Node(NN('gas'))
    tg = grid(T)
    pr = prices_for(T, seed)
    pr['demand'] = np.array([1., 2., 1., 0., 2., 1.][:T])
    a = [A.CHPAsset(NM('chp'), [power, heat, gas], min_cap=1, max_cap=4, extra_costs=0.3, conversion_factor_power_heat=0.5, max_share_heat=1.,
                    start_costs=2., min_runtime=2, time_already_running=1, last_dispatch=2, ramp=3, start_fuel=0.5, fuel_efficiency=0.8,
                    consumption_if_on=0.1),
         A.SimpleContract(NM('market'), power, price='p1', min_cap=-6, max_cap=6),
         A.Contract(NM('heat_demand'), heat, min_cap='demand', max_cap='demand', price=None) if False else
         A.SimpleContract(NM('heat_sink'), heat, price='p3', min_cap=-4, max_cap=0),
         A.SimpleContract(NM('gas_supply'), gas, price='p2', min_cap=-30, max_cap=30)]
    return 'chp', eao.portfolio.Portfolio(a), pr, tg


def z_chp_minload(seed, T=5):
    power, heat = A.Node(NN('power')), A.Node(NN('heat'))
    tg = grid(T)
    pr = prices_for(T, seed)
    a = [A.CHPAsset_with_min_load_costs(name=NM('chpml'), nodes=[power, heat], min_cap=1, max_cap=4, extra_costs=0.3, start_costs=1.,
                                        min_load_threshhold=2., min_load_costs=1.5, max_share_heat=0.5),
         A.SimpleContract(NM('market'), power, price='p1', min_cap=-6, max_cap=6),
         A.SimpleContract(NM('heat_sink'), heat, price='p3', min_cap=-4, max_cap=0)]
    return 'chp_minload', eao.portfolio.Portfolio(a), pr, tg


def z_scaled(seed, T=6):
    n1 = A.Node(NN('n1'))
    tg = grid(T)
    pr = prices_for(T, seed)
    base = A.Storage(NM('battery_base'), n1, size=4, cap_in=2, cap_out=2, eff_in=0.5)
    sc = A.ScaledAsset(name=NM('battery'), base_asset=base, min_scale=0., max_scale=2., norm_scale=2., fix_costs=0.05)
    src = A.SimpleContract(NM('pv'), n1, price='p2', min_cap=0, max_cap=1)
    scsrc = A.ScaledAsset(name=NM('pv_scaled'), base_asset=src, min_scale=0.5, max_scale=3., norm_scale=1., fix_costs=0.1)
    a = [sc, scsrc, A.SimpleContract(NM('market'), n1, price='p1', min_cap=-6, max_cap=6)]
    return 'scaled', eao.portfolio.Portfolio(a), pr, tg


def z_scaled_orderbook(seed, T=6):
    """a scaled order book whose LAST order has no step on the grid (its variable has no mapping row): the scale variable comes behind it"""
    import pandas as pd
    n1 = A.Node(NN('n1'))
    tg = grid(T)
    pr = prices_for(T, seed)
    H = dt.timedelta(hours=1)
    orders = {'start': [pd.Timestamp(START), pd.Timestamp(START + 2 * H), pd.Timestamp(START + 9 * H)],
              'end': [pd.Timestamp(START + 3 * H), pd.Timestamp(START + 5 * H), pd.Timestamp(START + 12 * H)],
              'capa': [1., -2., 3.], 'price': [2., 6., 1.]}
    ob = A.OrderBook(NM('book'), n1, orders=orders)
    a = [A.ScaledAsset(name=NM('book_scaled'), base_asset=ob, min_scale=0., max_scale=2., norm_scale=1., fix_costs=0.05),
         A.SimpleContract(NM('market'), n1, price='p1', min_cap=-6, max_cap=6, extra_costs=0.25)]
    return 'scaled_orderbook', eao.portfolio.Portfolio(a), pr, tg


def z_structured(seed, T=6):
    n1, n2, ni = A.Node(NN('n1')), A.Node(NN('n2')), A.Node(NN('inner'))
    tg = grid(T)
    pr = prices_for(T, seed)
    inner = eao.portfolio.Portfolio([A.Transport(NM('in_tr'), [n1, ni], min_cap=0, max_cap=2, efficiency=0.5),
                                     A.Storage(NM('in_sto'), ni, size=2, cap_in=1, cap_out=1, cost_in=0.1),
                                     A.Transport(NM('out_tr'), [ni, n2], min_cap=0, max_cap=2, costs_const=0.1),
                                     # a priced contract of the sub-portfolio at one of its EXTERNAL nodes
                                     A.SimpleContract(NM('in_src'), n1, price='p3', min_cap=-1, max_cap=1, extra_costs=0.05)])
    sa = eao.portfolio.StructuredAsset(name=NM('hydro'), nodes=[n1, n2], portfolio=inner)
    a = [sa, A.SimpleContract(NM('m1'), n1, price='p1', min_cap=-3, max_cap=3), A.SimpleContract(NM('m2'), n2, price='p2', min_cap=-3, max_cap=3)]
    return 'structured', eao.portfolio.Portfolio(a), pr, tg


def z_linked(seed, T=6):
    power, heat = A.Node(NN('power')), A.Node(NN('heat'))
    tg = grid(T)
    pr = prices_for(T, seed)
    a1 = A.SimpleContract(name=NM('boiler'), nodes=heat, price='p2', min_cap=0, max_cap=2)
    a2 = A.CHPAsset(name=NM('chp'), nodes=[power, heat], min_cap=1, max_cap=3, extra_costs=0.2, start_costs=1., min_runtime=2, max_share_heat=1.)
    inner = eao.portfolio.Portfolio([a1, a2])
    la = eao.portfolio.LinkedAsset(inner, nodes=[power, heat], name=NM('linked'), asset1_variable=(a1, 'disp', heat),
                                   asset2_variable=(a2, 'bool_on', None), asset2_time_already_running=0, time_back=1, time_forward=0)
    a = [la, A.SimpleContract(NM('market'), power, price='p1', min_cap=-6, max_cap=6), A.SimpleContract(NM('heat_sink'), heat, price='p3', min_cap=-5, max_cap=0)]
    return 'linked', eao.portfolio.Portfolio(a), pr, tg


def z_orderbook(seed, T=6):
    n1 = A.Node(NN('n1'))
    tg = grid(T)
    pr = prices_for(T, seed)
    import pandas as pd
    H = dt.timedelta(hours=1)
    orders = {'start': [pd.Timestamp(START), pd.Timestamp(START + 2 * H), pd.Timestamp(START - 5 * H), pd.Timestamp(START + 4 * H)],
              'end': [pd.Timestamp(START + 3 * H), pd.Timestamp(START + 5 * H), pd.Timestamp(START - 2 * H), pd.Timestamp(START + 9 * H)],
              'capa': [1., -2., 3., 1.5], 'price': [2., 6., 1., 3.]}
    a = [A.OrderBook(NM('ob'), n1, orders=orders, full_exec=(seed % 2 == 1)),
         A.Storage(NM('sto'), n1, size=3, cap_in=1, cap_out=1),
         A.SimpleContract(NM('market'), n1, price='p1', min_cap=-2, max_cap=2, extra_costs=0.5)]
    return 'orderbook', eao.portfolio.Portfolio(a), pr, tg


def z_coarse(seed, T=8):
    n1, n2 = A.Node(NN('n1')), A.Node(NN('n2'))
    tg = grid(T)
    pr = prices_for(T, seed)
    a = [A.SimpleContract(NM('base'), n1, price='p1', min_cap=-2, max_cap=2, freq='2h'),
         A.Transport(NM('tr'), [n1, n2], min_cap=0, max_cap=2, efficiency=0.5, freq='4h'),
         A.Storage(NM('sto'), n1, size=4, cap_in=1, cap_out=1, freq='2h'),
         A.SimpleContract(NM('m1'), n1, price='p2', min_cap=-5, max_cap=5),
         A.SimpleContract(NM('m2'), n2, price='p3', min_cap=-5, max_cap=5)]
    return 'coarse', eao.portfolio.Portfolio(a), pr, tg


def z_coarse_window(seed, T=8):
    """assets with a coarser frequency of their own whose lifetime ends before / starts after the borders of the grid"""
    n1, n2 = A.Node(NN('n1')), A.Node(NN('n2'))
    tg = grid(T)
    pr = prices_for(T, seed)
    H = dt.timedelta(hours=1)
    a = [A.SimpleContract(NM('block'), n1, price='p1', min_cap=-2, max_cap=2, freq='2h', end=START + 4 * H),
         A.Transport(NM('pipe'), [n1, n2], min_cap=0, max_cap=2, efficiency=0.5, freq='4h', end=START + 4 * H),
         A.Storage(NM('late'), n1, size=4, cap_in=1, cap_out=1, freq='2h', start=START + 2 * H, end=START + 6 * H),
         A.SimpleContract(NM('m1'), n1, price='p2', min_cap=-5, max_cap=5),
         A.SimpleContract(NM('m2'), n2, price='p3', min_cap=-5, max_cap=5)]
    return 'coarse_window', eao.portfolio.Portfolio(a), pr, tg


def z_periodic(seed, T=8):
    n1, n2 = A.Node(NN('n1')), A.Node(NN('n2'))
    tg = grid(T, freq='h')
    pr = prices_for(T, seed)
    a = [A.SimpleContract(NM('per'), n1, price='p1', min_cap=-2, max_cap=2, periodicity='2h'),
         A.Transport(NM('trp'), [n1, n2], min_cap=0, max_cap=2, efficiency=0.5, periodicity='4h'),
         A.Storage(NM('stop'), n1, size=4, cap_in=1, cap_out=1, periodicity='4h'),
         A.SimpleContract(NM('m1'), n1, price='p2', min_cap=-5, max_cap=5),
         A.SimpleContract(NM('m2'), n2, price='p3', min_cap=-5, max_cap=5)]
    return 'periodic', eao.portfolio.Portfolio(a), pr, tg


def z_periodic_duration(seed, T=8):
    n1 = A.Node(NN('n1'))
    tg = grid(T, freq='h')
    pr = prices_for(T, seed)
    a = [A.SimpleContract(NM('perd'), n1, price='p1', min_cap=-2, max_cap=2, periodicity='2h', periodicity_duration='4h'),
         A.SimpleContract(NM('m1'), n1, price='p2', min_cap=-5, max_cap=5)]
    return 'periodic_duration', eao.portfolio.Portfolio(a), pr, tg


def z_digit_names(seed, T=4):
    n1 = A.Node(NN('1'))
    n2 = A.Node(NN('11'))
    tg = grid(T)
    pr = prices_for(T, seed)
    a = [A.SimpleContract(NM('1'), n1, price='p1', min_cap=-2, max_cap=2, extra_costs=0.5),
         A.SimpleContract(NM('11'), n1, price='p2', min_cap=-3, max_cap=3),
         A.Transport(NM('1_1'), [n1, n2], min_cap=0, max_cap=1),
         A.SimpleContract(NM('111'), n2, price='p3', min_cap=-3, max_cap=3, extra_costs=0.25)]
    return 'digit_names', eao.portfolio.Portfolio(a), pr, tg


def z_storage_mip(seed, T=5):
    n1 = A.Node(NN('n1'))
    tg = grid(T)
    pr = prices_for(T, seed)
    a = [A.Storage(NM('smip'), n1, size=3, cap_in=2, cap_out=2, eff_in=0.5, no_simult_in_out=True, max_store_duration=2),
         A.SimpleContract(NM('m'), n1, price='p1', min_cap=-3, max_cap=3)]
    return 'storage_mip', eao.portfolio.Portfolio(a), pr, tg


def z_storage_mip_late(seed, T=6):
    """a storage with boolean variables (no simultaneous in / out, holding duration) whose lifetime starts AFTER the grid start"""
    n1 = A.Node(NN('n1'))
    tg = grid(T)
    pr = prices_for(T, seed)
    H = dt.timedelta(hours=1)
    a = [A.SimpleContract(NM('m'), n1, price='p1', min_cap=-3, max_cap=3),
         A.Storage(NM('smip_late'), n1, size=3, cap_in=2, cap_out=2, eff_in=0.5, no_simult_in_out=True, max_store_duration=2, start=START + 2 * H, end=START + 5 * H)]
    return 'storage_mip_late', eao.portfolio.Portfolio(a), pr, tg


def z_windows(seed, T=6):
    n1, n2 = A.Node(NN('n1')), A.Node(NN('n2'))
    tg = grid(T)
    pr = prices_for(T, seed)
    H = dt.timedelta(hours=1)
    a = [A.SimpleContract(NM('early'), n1, price='p1', min_cap=-2, max_cap=2, start=START - 3 * H, end=START + 2 * H),
         A.Storage(NM('late'), n1, size=2, cap_in=1, cap_out=1, start=START + 3 * H, end=START + 9 * H),
         A.Transport(NM('gone'), [n1, n2], min_cap=0, max_cap=2, start=START + 10 * H, end=START + 12 * H),
         A.SimpleContract(NM('m1'), n1, price='p2', min_cap=-5, max_cap=5),
         A.SimpleContract(NM('m2'), n2, price='p3', min_cap=-5, max_cap=5)]
    return 'windows', eao.portfolio.Portfolio(a), pr, tg


LP_ZOO = [z_contracts, z_transport_storage, z_multi, z_scaled, z_scaled_orderbook, z_structured, z_orderbook, z_coarse, z_coarse_window, z_periodic, z_periodic_duration,
          z_digit_names, z_windows]
MIP_ZOO = [z_plant_fuel, z_chp, z_chp_minload, z_linked, z_storage_mip, z_storage_mip_late]
ZOO = LP_ZOO + MIP_ZOO
