"""Assembly traces (C07 / C15): the per-asset problems and the assembled problem as small tables for
Trace_EAOAssembly.  Only public API and the documented fields (c, l, u, A, b, cType, mapping) are used; the
per-asset problems are obtained by asking each asset of the portfolio for its own problem with the same
prices and grid."""
import numpy as np
import scipy.sparse as sp

from .record import fx
from .realise import quiet

KA = 1000


def _str(v):
    if v is None or (isinstance(v, float) and np.isnan(v)):
        return 'nan'
    if isinstance(v, (int, np.integer)):
        return str(int(v))
    if isinstance(v, (float, np.floating)) and float(v).is_integer():
        return str(int(v))
    return str(v)


def _rows(A, b, ct, K=KA):
    out = []
    if A is None or A.shape[0] == 0:
        return out
    A = sp.csr_matrix(A)
    for i in range(A.shape[0]):
        r = A.getrow(i)
        cols = [[int(j), fx(v, K)] for j, v in zip(r.indices, r.data) if v != 0]
        out.append(dict(cls=ct[i], b=fx(b[i], K), cols=sorted(cols)))
    return out


def _maprows(m):
    df = m['disp_factor'].values if 'disp_factor' in m.columns else np.ones(len(m))
    out = []
    for lab, asset, node, ts, ty, vn, f in zip(m.index.values, m['asset'].values, m['node'].values, m['time_step'].values,
                                               m['type'].values, m['var_name'].values if 'var_name' in m.columns else [None] * len(m), df):
        f = 1.0 if (f is None or (isinstance(f, float) and np.isnan(f))) else float(f)
        out.append(dict(lab=int(lab), asset=str(asset), node=_str(node), step=int(ts), type=_str(ty), var=_str(vn), df=fx(f, KA)))
    return out


def vec(v):
    return [fx(x, KA) for x in np.asarray(v, float)]


def asset_table(op):
    """stand-alone problem of one asset"""
    n = len(op.l)
    mr = _maprows(op.mapping) if op.mapping is not None and len(op.mapping) else []
    sig = [[] for _ in range(n)]
    bad_label = False
    for r in mr:
        if 0 <= r['lab'] < n:
            sig[r['lab']].append([r['node'], r['step'], r['type'], r['var']])
        else:
            bad_label = True
    return dict(n=n, nc=len(op.c), nl=len(op.l), nu=len(op.u), ncols=(op.A.shape[1] if op.A is not None else -1),
                c=vec(op.c), l=vec(op.l), u=vec(op.u), sig=sig, rows=_rows(op.A, op.b, op.cType) if op.A is not None else [],
                badlabel=bad_label)


def declared_window(a, timegrid):
    """[first step, last step + 1) of the window the asset was declared with (a scaled asset dispatches what its base asset dispatches),
    from the declaration and the grid points only"""
    import pandas as pd
    src = getattr(a, 'base_asset', None) or a

    def ts(x, default):
        if x is None:
            return default
        t = pd.Timestamp(x)
        tz = timegrid.timepoints.tz
        if tz is not None and t.tzinfo is None:
            t = t.tz_localize(tz)
        elif tz is None and t.tzinfo is not None:
            t = t.tz_localize(None)
        return t
    pts = timegrid.timepoints
    s0, e0 = ts(src.start, pts[0]), ts(src.end, None)
    I = [i for i, p_ in enumerate(pts) if p_ >= s0 and (e0 is None or p_ < e0)]
    return [min(I), max(I) + 1] if I else [0, 0]


def assembly_trace(portfolio, prices, timegrid, op, fix=None, global_only=False, T=None, nodal_step_offset=0):
    """trace dict for Trace_EAOAssembly from a portfolio and its assembled problem `op`
    (global_only: only the problem's own tables, e.g. for one interval problem of a split set-up with T steps)"""
    names = [a.name for a in portfolio.assets]
    tabs = []
    for a in ([] if global_only else portfolio.assets):
        with quiet():
            aop = a.setup_optim_problem(prices, timegrid)
        tabs.append(asset_table(aop))
        tabs[-1]['nodes'] = [str(x) for x in a.node_names]      # the nodes the asset was DECLARED with (independent of its set-up)
        tabs[-1]['win'] = declared_window(a, timegrid)           # ... and the steps of its declared window [first, last + 1)
    n = len(op.l)
    mr = _maprows(op.mapping)
    for r in mr:
        r['asset'] = names.index(r['asset']) + 1 if r['asset'] in names else 0
    # phi: local label -> global label, found by matching signatures (rows of the variable) within the asset
    gsig = {}
    for r in mr:
        gsig.setdefault((r['asset'], r['lab']), set()).add((r['node'], r['step'], r['type'], r['var']))
    for k, t in enumerate(tabs):
        cand = {}
        for (ak, lab), s in gsig.items():
            if ak == k + 1:
                cand.setdefault(frozenset(s), []).append(lab)
        for v in cand.values():
            v.sort()
        phi = []
        for i in range(t['n']):
            s = frozenset(tuple(x) for x in t['sig'][i])
            if not s:
                phi.append(-1)
            elif cand.get(s):
                phi.append(cand[s].pop(0))
            else:
                phi.append(-1)
        t['phi'] = phi
    A = sp.csr_matrix(op.A) if op.A is not None else sp.csr_matrix((0, n))
    ct = op.cType or ''
    b = np.asarray(op.b, float) if op.b is not None else np.zeros(0)
    # the portfolio's own nodal rows are the LAST len(map_nodal_restr) rows of class N; rows of class N before them belong
    # to assets (a structured asset brings the nodal rows of its internal nodes)
    nr_count = len(op.map_nodal_restr) if op.map_nodal_restr is not None else 0
    isN = np.zeros(len(ct), bool)
    posN = [i for i, c in enumerate(ct) if c == 'N']
    for i in posN[len(posN) - nr_count:] if nr_count else []:
        isN[i] = True
    rows = _rows(A[~isN] if len(ct) else A, b[~isN] if len(ct) else b, ''.join(c for c, nn in zip(ct, isN) if not nn))
    nodal = []
    if isN.any():
        AN = A[isN]
        bN = b[isN]
        nr = list(op.map_nodal_restr) if op.map_nodal_restr is not None else []
        for j in range(AN.shape[0]):
            r = AN.getrow(j)
            step, node = (nr[j] if j < len(nr) else (-1, '?'))
            # (the interval problems of a split set-up record their nodal rows with the step numbers of the ORIGINAL grid)
            nodal.append(dict(node=_str(node), step=int(step) - nodal_step_offset, b=fx(bN[j], KA),
                              cols=sorted([[int(i), fx(v, KA)] for i, v in zip(r.indices, r.data) if v != 0])))
    g = dict(n=n, nc=len(op.c), nl=len(op.l), nu=len(op.u), ncols=A.shape[1], c=vec(op.c), l=vec(op.l), u=vec(op.u),
             nan=bool(np.isnan(np.asarray(op.c, float)).any() or np.isnan(np.asarray(op.l, float)).any() or np.isnan(np.asarray(op.u, float)).any()),
             maprows=mr, rows=rows, nodal=nodal)
    return dict(T=int(T if T is not None else timegrid.T), assets=tabs, g=g, fix=fix if fix is not None else [],
                mode='fix' if fix is not None else ('global' if global_only else 'all'))
