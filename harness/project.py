"""Projection between specification decisions and the variables / tables of the implementation.

Only the documented mapping contract is used: columns asset, node, time_step, var_name, type, disp_factor, bool,
and the index (= variable number).  Variable / row order and private attributes are never looked at.

A spec *leg* is the volume an asset moves at one of its nodes in one step.  The implementation's variable v
contributes x_v * disp_factor at (node, step) of each of its mapping rows, so the leg pins
        x_v = leg / (disp_factor / base)
with `base` the sign convention of that leg (+1, or -1 for the sending end of a transport, or the commodity
factor).  Legs sharing one variable (one `disp` variable for in+out, a coarse interval, a periodic position) give
several equations for the same variable; if they disagree the behaviour is not representable (= infeasible).
"""
import numpy as np


class VarIndex:
    def __init__(self, op):
        self.n = len(op.c)
        m = op.mapping
        self.rows = {}
        df = m['disp_factor'].values if 'disp_factor' in m.columns else np.ones(len(m))
        for idx, asset, vn, ts, node, f, ty in zip(m.index.values, m['asset'].values, m['var_name'].values,
                                                   m['time_step'].values, m['node'].values, df, m['type'].values):
            if isinstance(vn, (int, np.integer, float, np.floating)) and not isinstance(vn, bool):
                try:
                    vn = int(vn)
                except (ValueError, OverflowError):
                    pass
            f = 1.0 if (f is None or (isinstance(f, float) and np.isnan(f))) else float(f)
            self.rows.setdefault((asset, vn, int(ts)), []).append((int(idx), node, f, ty))

    def find(self, asset, vnames, ts, node):
        """rows of `asset` in step ts at `node` whose var_name (possibly suffixed '__inner') is in vnames"""
        out = []
        for vn in vnames:
            for (idx, nd, f, ty) in self.rows.get((asset, vn, ts), []):
                if nd == node and ty in ('d', 'i'):     # ('i': rows at the internal nodes of a structured asset)
                    out.append((vn, idx, f))
        return out


class Pins(dict):
    """var -> value; .conflict is set when two legs demand different values of one variable,
    .missing lists non-zero legs for which the implementation has no variable"""

    def __init__(self):
        super().__init__()
        self.conflict = False
        self.missing = []

    def put(self, idx, val):
        if idx in self and abs(self[idx] - val) > 1e-9:
            self.conflict = True
        else:
            self[idx] = val


def leg_targets(real, i):
    """for asset i: list of (leg index, node name, base factor, var names)"""
    a = real.cfg['assets'][i]
    nn = real.nodenames
    k = a['kind']
    if k == 'contract':
        return [((0, 1), nn(a['node']), 1.0)]
    if k == 'multi':
        j = next(jj for jj, f in enumerate(a['factors']) if f[0] != 0)
        return [((0, 1), nn(a['mnodes'][j]), a['factors'][j][0] / a['factors'][j][1])]
    if k == 'transport':
        return [((0,), nn(a['n1']), -1.0)]
    if k == 'storage':
        return [((0,), nn(a['nin']), 1.0), ((1,), nn(a['nout']), 1.0)]
    return []


def asset_label(real, i):
    """(mapping asset name, var-name suffix) -- inside a structured asset variables carry the wrapper's name"""
    if real.struct and i in real.struct:
        return real.struct_name(), '__' + real.names(i), real.struct_name() + '_internal_'
    return real.names(i), '', None


def pins_for(real, vi, beh, upto=None):
    """Spec behaviour -> pinned partial assignment (Pins).  Steps 1..upto (default: all recorded) are pinned;
    order fractions are always pinned."""
    cfg = real.cfg
    pins = Pins()
    steps = beh['steps']
    n = len(steps) if upto is None else min(upto, len(steps))
    ext_nodes = None
    if real.struct:
        ext_nodes = set(real.struct_ext_nodes())
    for i, a in enumerate(cfg['assets']):
        label, suffix, internal_prefix = asset_label(real, i)

        def node_label(nd):
            if internal_prefix and nd not in ext_nodes:
                return internal_prefix + nd
            return nd
        if a['kind'] == 'orderbook':
            for o in range(len(a['orders'])):
                hit = False
                for (asset, vn, ts), rows in vi.rows.items():
                    if asset == label and (vn == o or vn == str(o) + suffix):
                        for (idx, nd, f, ty) in rows:
                            pins.put(idx, beh['frac'][i][o] / a['fden'])
                            hit = True
                od = a['orders'][o]
                covers = any(od['s'] <= cfg['tp'][s0] < od['e'] for s0 in range(cfg['T']))
                if not hit and beh['frac'][i][o] != 0 and covers:     # an order covering no step is inert: nothing to pin
                    pins.missing.append((i, 'order', o))
            continue
        for s in range(1, n + 1):
            if not (a['ws'] <= s < a['we']):
                continue
            legs = steps[s - 1]['legs'][i]
            ts = s - 1
            if a['kind'] in ('contract', 'multi'):
                (lg, node, base), = leg_targets(real, i)
                node = node_label(node)
                one = vi.find(label, ['disp' + suffix], ts, node)
                two_in = vi.find(label, ['disp_in' + suffix], ts, node)
                two_out = vi.find(label, ['disp_out' + suffix], ts, node)
                if one:
                    for (_, idx, f) in one:
                        pins.put(idx, (legs[0] + legs[1]) / (f / base))
                elif two_in and two_out:
                    for (_, idx, f) in two_in:
                        pins.put(idx, legs[0] / (f / base))
                    for (_, idx, f) in two_out:
                        pins.put(idx, legs[1] / (f / base))
                elif legs[0] != 0 or legs[1] != 0:
                    pins.missing.append((i, s, legs))
            elif a['kind'] == 'transport':
                (lg, node, base), = leg_targets(real, i)
                node = node_label(node)
                one = vi.find(label, ['disp' + suffix], ts, node)
                if one:
                    for (_, idx, f) in one:
                        pins.put(idx, legs[0] / (f / base))
                elif legs[0] != 0:
                    pins.missing.append((i, s, legs))
            elif a['kind'] == 'storage':
                nin, nout = node_label(real.nodenames(a['nin'])), node_label(real.nodenames(a['nout']))
                one = vi.find(label, ['disp' + suffix], ts, nin)
                two_in = vi.find(label, ['disp_in' + suffix], ts, nin)
                two_out = vi.find(label, ['disp_out' + suffix], ts, nout)
                if one:
                    for (_, idx, f) in one:
                        pins.put(idx, (legs[0] + legs[1]) / f)
                elif two_in and two_out:
                    for (_, idx, f) in two_in:
                        pins.put(idx, legs[0] / f)
                    for (_, idx, f) in two_out:
                        pins.put(idx, legs[1] / f)
                elif legs[0] != 0 or legs[1] != 0:
                    pins.missing.append((i, s, legs))
    return pins


def key_of(pins):
    return tuple(sorted((k, round(v, 9)) for k, v in pins.items()))
