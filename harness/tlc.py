"""Running TLC / SANY and exchanging data with TLA+ modules.

* tla(v)            : Python value -> TLA+ expression text
* write_mc(...)     : generate an MC_<x>.tla / .cfg pair in a scratch directory
* run_tlc(...)      : run TLC, return parsed PrintT tuples, state counts, coverage, raw output
All scratch lives under a directory created by the caller (mktemp) and removed by it.
"""
import json
import os
import re
import shutil
import subprocess
import tempfile
import time

SPEC_DIR = os.path.join(os.path.dirname(os.path.dirname(os.path.abspath(__file__))), 'spec')
JAR_CP = '/opt/veriftools/tla/tla2tools.jar:/opt/veriftools/tla/CommunityModules-deps.jar'


class MachineryError(Exception):
    """TLC crashed / spec did not parse / nothing was covered: exit code 2, never a VIOLATION."""


class Str(str):
    """marker: emit verbatim (an already formatted TLA+ expression)"""


class FSet(frozenset):
    pass


def tla(v):
    if isinstance(v, Str):
        return str(v)
    if isinstance(v, bool):
        return 'TRUE' if v else 'FALSE'
    if isinstance(v, int):
        return str(v) if v >= 0 else '(%d)' % v
    if isinstance(v, float):
        if v != int(v):
            raise TypeError('non-integral float in TLA+ value: %r' % v)
        return tla(int(v))
    if isinstance(v, str):
        assert '"' not in v and '\\' not in v, v
        return '"%s"' % v
    if isinstance(v, (list, tuple)):
        return '<<' + ', '.join(tla(x) for x in v) + '>>'
    if isinstance(v, (set, frozenset)):
        return '{' + ', '.join(sorted(tla(x) for x in v)) + '}'
    if isinstance(v, dict):
        if not v:
            return '<<>>'
        return '[' + ', '.join('%s |-> %s' % (k, tla(x)) for k, x in v.items()) + ']'
    raise TypeError('cannot convert %r' % (v,))


def scratch(prefix='eaoverif_'):
    return tempfile.mkdtemp(prefix=prefix)


def write_mc(workdir, name, extends, defs, cfg_lines, extra_modules=()):
    """Write <workdir>/<name>.tla extending `extends` (copied from spec/) with definitions `defs`
    (dict name -> TLA+ text) and <name>.cfg with the given lines."""
    for fn in os.listdir(SPEC_DIR):
        if fn.endswith('.tla'):
            shutil.copy(os.path.join(SPEC_DIR, fn), os.path.join(workdir, fn))
    with open(os.path.join(workdir, name + '.tla'), 'w') as f:
        f.write('---- MODULE %s ----\nEXTENDS %s\n' % (name, ', '.join([extends] + list(extra_modules))))
        for k, v in defs.items():
            f.write('%s ==\n  %s\n' % (k, v))
        f.write('====\n')
    with open(os.path.join(workdir, name + '.cfg'), 'w') as f:
        f.write('\n'.join(cfg_lines) + '\n')
    return os.path.join(workdir, name + '.tla')


_STATS = re.compile(r'(\d+) states generated, (\d+) distinct states found')
_COV = re.compile(r'^<(\w+) line (\d+), col (\d+) to line (\d+), col (\d+) of module (\w+)>: (\d+):(\d+)', re.M)


def _parse_tuple_lines(out, tags):
    """PrintT(<<"TAG", ...>>) lines -> list of (tag, rest-of-line-text)."""
    res = []
    for line in out.splitlines():
        if not line.startswith('<<"'):
            continue
        m = re.match(r'<<"(\w+)", (.*)>>\s*$', line)
        if m and m.group(1) in tags:
            res.append((m.group(1), m.group(2)))
    return res


def run_tlc(workdir, module, workers=16, simulate=None, depth=None, seed=None, coverage=False, timeout=3600,
            env_extra=None, tags=('BEH',), json_payload=True, deadlock=False, extra_args=()):
    """Run TLC on <workdir>/<module>.tla.  Returns dict(out, records, generated, distinct, wall, cov, ok, violated)."""
    meta = os.path.join(workdir, 'meta_' + module)
    cmd = ['java', '-XX:+UseParallelGC', '-Xmx8g', '-cp', JAR_CP, 'tlc2.TLC',
           '-workers', str(workers), '-metadir', meta, '-noGenerateSpecTE', '-nowarning']
    if simulate is not None:
        cmd += ['-simulate', 'num=%d' % simulate]
        if depth is not None:
            cmd += ['-depth', str(depth)]
    if seed is not None:
        cmd += ['-seed', str(seed)]
    if coverage:
        cmd += ['-coverage', '1']
    cmd += list(extra_args)
    cmd += [module + '.tla']
    env = dict(os.environ)
    if env_extra:
        env.update(env_extra)
    t0 = time.time()
    try:
        p = subprocess.run(cmd, cwd=workdir, capture_output=True, text=True, timeout=timeout, env=env)
    except subprocess.TimeoutExpired as e:
        subprocess.run(['pkill', '-f', meta])
        raise MachineryError('TLC timeout after %ss on %s' % (timeout, module))
    wall = time.time() - t0
    out = p.stdout
    shutil.rmtree(meta, ignore_errors=True)
    res = dict(out=out, wall=wall, generated=0, distinct=0, records=[], cov={}, violated=None, rc=p.returncode)
    m = None
    for m in _STATS.finditer(out):
        pass
    if m:
        res['generated'], res['distinct'] = int(m.group(1)), int(m.group(2))
    # invariant / property violation reported by TLC itself
    mv = re.search(r'Error: Invariant (\w+) is violated', out) or re.search(r'Error: Action property (\w+) is violated', out) \
        or re.search(r'Error: Temporal properties were violated', out)
    if mv:
        res['violated'] = mv.group(1) if mv.groups() else 'temporal'
    bad = 0
    for tag, rest in _parse_tuple_lines(out, tags):
        if json_payload:
            try:
                res['records'].append((tag, json.loads(json.loads(rest))))
            except Exception:
                bad += 1
        else:
            res['records'].append((tag, rest))
    res['unparsed'] = bad
    if coverage:
        for mm in _COV.finditer(out):
            res['cov'][mm.group(1)] = res['cov'].get(mm.group(1), 0) + int(mm.group(8))
    hard = ('Parsing or semantic analysis failed' in out or 'java.lang' in out and 'Exception' in out
            or 'TLC threw an unexpected exception' in out or 'Error: Evaluating' in out
            or 'was not able to' in out or 'The exception was' in out or 'Error: In evaluation' in out
            or 'Error: The' in out or 'Error: TLC' in out)
    if res['violated'] is None and (hard or (p.returncode not in (0,) and 'Error:' in out)):
        raise MachineryError('TLC failed on %s (rc=%s):\n%s' % (module, p.returncode, out[-3000:]))
    if simulate is None and res['violated'] is None and m is None:
        raise MachineryError('TLC produced no statistics on %s:\n%s' % (module, out[-3000:]))
    return res


def sany(path):
    p = subprocess.run(['java', '-cp', JAR_CP, 'tla2sany.SANY', os.path.basename(path)],
                       cwd=os.path.dirname(path), capture_output=True, text=True)
    ok = p.returncode == 0 and 'rror' not in p.stdout.replace('Semantic errors:', 'rror') and '*** Errors' not in p.stdout
    return ok, p.stdout
