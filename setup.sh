#!/bin/sh
# offline build of the framework: parse every specification module, byte-compile the harness
set -e
cd "$(dirname "$0")"
for f in spec/*.tla; do
  (cd spec && java -cp /opt/veriftools/tla/tla2tools.jar:/opt/veriftools/tla/CommunityModules-deps.jar tla2sany.SANY "$(basename "$f")" >/tmp/sany.$$ 2>&1) || { cat /tmp/sany.$$; rm -f /tmp/sany.$$; exit 1; }
  if grep -q "Fatal errors\|\*\*\* Errors\|Semantic errors" /tmp/sany.$$; then cat /tmp/sany.$$; rm -f /tmp/sany.$$; exit 1; fi
done
rm -f /tmp/sany.$$
/venv/bin/python -m compileall -q harness checks
mkdir -p out evidence
echo "setup ok"
