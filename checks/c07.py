"""C07 the variable mapping is a faithful description of the assembled problem.

Decided twice: (1) on the TLA+ model of the index algorithm (EAOAssembly) over adversarial name sets and assets owning
variables without mapping rows -- TLC must prove the label invariants for the rule the code uses and must FIND the
counterexamples of the rule used before repair 0cb03ca (anti-vacuity); (2) on assembly traces recorded from the real code
for the reference families, the zoo of all asset types and adversarial portfolios, every clause evaluated by TLC."""
import copy
import shutil

from harness import assembly as ASM
from harness import realise as R
from harness import record as REC
from harness import tlc, zoo
from harness.check import CheckRun
from harness.realise import eao, quiet

from . import common, fam


def model_check(chk, rule, names, expect_violation):
    wd = tlc.scratch()
    try:
        defs = {'MCNames': tlc.tla(set(names))}
        lines = ['SPECIFICATION Spec', 'CONSTANT Names <- MCNames', 'CONSTANT MaxAssets = 3', 'CONSTANT MaxVars = 3' if rule != 'offset' else 'CONSTANT MaxVars = 3',
                 'CONSTANT Steps = 2', 'CONSTANT Rule = "%s"' % rule, 'INVARIANT LabelInRange', 'INVARIANT LabelInjective', 'INVARIANT LabelIsPosition',
                 'CHECK_DEADLOCK FALSE']
        tlc.write_mc(wd, 'MCasm', 'EAOAssembly', defs, lines)
        r = tlc.run_tlc(wd, 'MCasm', tags=())
        chk.add_tlc(dict(generated=r['generated'], distinct=r['distinct']))
        chk.notes['model_rule_%s' % rule] = dict(states=r['distinct'], violated=r['violated'])
        if expect_violation and not r['violated']:
            raise tlc.MachineryError('anti-vacuity: TLC did not find the known counterexample of rule %s' % rule)
        if not expect_violation and r['violated']:
            chk.violation(dict(check='model_invariant', rule=rule, invariant=r['violated']), 'TLC: %s violated on the model of the index algorithm (rule %s)' % (r['violated'], rule),
                          r['out'][-2500:])
    finally:
        shutil.rmtree(wd, ignore_errors=True)


def traces_of(chk, items, tag):
    """items: iterable of (label, portfolio, prices, timegrid)"""
    traces, meta = [], []
    for label, pf, pr, tg in items:
        sel = dict(check='assembly_trace', family=tag, portfolio=label)
        try:
            with quiet():
                op = pf.setup_optim_problem(pr, tg)
            tr = ASM.assembly_trace(pf, pr, tg, op)
        except tlc.MachineryError:
            raise
        except Exception as e:
            chk.violation(dict(sel, check='setup_raises', error=type(e).__name__), 'set-up raised %s: %s' % (type(e).__name__, e), dict(portfolio=label))
            continue
        chk.cnt['eval_assemblies'] += 1
        traces.append(tr)
        meta.append(sel)
    return traces, meta


def pd_steps(tg, iv, k):
    """number of grid steps in interval k of a split with interval size iv (grids and intervals are whole hours here)"""
    import pandas as pd
    step = pd.Timedelta(tg.freq if tg.freq[0].isdigit() else '1' + tg.freq)
    size = pd.Timedelta(iv)
    per = int(size / step)
    return max(0, min(per, tg.T - k * per))


def pd_per(tg, iv):
    import pandas as pd
    return int(pd.Timedelta(iv) / pd.Timedelta(tg.freq if tg.freq[0].isdigit() else '1' + tg.freq))


def adversarial(seed):
    """names that are digits / prefixes of each other / contain the separators the code uses; variables without rows"""
    import datetime as dt

    import numpy as np
    import pandas as pd
    A = eao.assets
    out = []
    S = zoo.START
    H = dt.timedelta(hours=1)
    namesets = [('1', '11', '111'), ('0', '00', '10'), ('a', 'a1', '1a'), ('x__y', 'x', 'y'), ('s (n)', 's', 'n'), ('a_internal_b', 'a', 'b'), ('12', '1', '2')]
    for ns in namesets:
        n1 = A.Node(ns[0])
        n2 = A.Node(ns[1])
        tg = zoo.grid(4)
        pr = zoo.prices_for(4, seed)
        a = [A.SimpleContract(ns[0], n1, price='p1', min_cap=-2, max_cap=2, extra_costs=0.5),
             A.Transport(ns[1], [n1, n2], min_cap=0, max_cap=1, efficiency=0.5),
             A.SimpleContract(ns[2], n2, price='p2', min_cap=-3, max_cap=3),
             A.SimpleContract(ns[2] + ns[0], n1, price='p3', min_cap=-3, max_cap=3),
             # two-node assets in both orientations (node names of different lengths)
             A.Storage('S' + ns[0] + '>' + ns[1], [n1, n2], size=2, cap_in=1, cap_out=1, eff_in=0.5),
             A.Storage('S' + ns[1] + '>' + ns[0], [n2, n1], size=2, cap_in=1, cap_out=1, no_simult_in_out=True, cost_in=0.1)]
        out.append(('names_' + '|'.join(ns), eao.portfolio.Portfolio(a), pr, tg))
    # order books whose first / middle / all orders have no step in the horizon, followed by other assets
    for k, placement in enumerate([(0,), (1,), (0, 1, 2), (2,)]):
        n1 = A.Node('n1')
        tg = zoo.grid(4)
        pr = zoo.prices_for(4, seed)
        st = [pd.Timestamp(S), pd.Timestamp(S + H), pd.Timestamp(S + 2 * H)]
        en = [pd.Timestamp(S + 2 * H), pd.Timestamp(S + 3 * H), pd.Timestamp(S + 4 * H)]
        for j in placement:
            st[j] = pd.Timestamp(S - 9 * H)
            en[j] = pd.Timestamp(S - 5 * H)
        ob = A.OrderBook('ob', n1, orders={'start': st, 'end': en, 'capa': [1., -1., 2.], 'price': [1., 5., 2.]})
        a = [ob, A.SimpleContract('m', n1, price='p1', min_cap=-3, max_cap=3, extra_costs=0.5), A.Storage('s', n1, size=2, cap_in=1, cap_out=1)]
        out.append(('orders_outside_%d' % k, eao.portfolio.Portfolio(a), pr, tg))
    return out


def run(tier, seed):
    chk = CheckRun('C07', tier, seed)
    th = tier == 'thorough'
    # (1) design level
    adv = ['1', '11', '1_', 'a', 'a1'] if th else ['1', '11', 'a']
    model_check(chk, 'offset', adv, expect_violation=False)
    model_check(chk, 'keypair', adv, expect_violation=True)     # gaps: unmapped variables are not counted -> label # position
    model_check(chk, 'keycat', adv, expect_violation=True)      # key collision ("1"+"11" = "11"+"1") and gaps
    # (1b) thorough tier: the same statement for UNBOUNDED numbers of variables per asset, by an inductive invariant discharged with Apalache
    if th:
        import subprocess
        pr = subprocess.run(['/verif/tools/apalache_index.sh'], capture_output=True, text=True)
        chk.notes['apalache_inductive_label_rule'] = pr.stdout.strip().splitlines()[-1:] if pr.stdout.strip() else ['no output']
        if pr.returncode != 0:
            raise tlc.MachineryError('Apalache did not discharge the inductive obligations of EAOIndexInd: %s' % pr.stdout[-500:])
    # (2) traces of the real assembly
    items = []
    for s in range(seed, seed + (1 if not th else 4)):
        for z in zoo.ZOO:
            name, pf, pr, tg = z(s)
            items.append((name, pf, pr, tg))
        items += adversarial(s)
    k = 1 if th else 4
    for tag, cfgs in [('composite', fam.fam_composite()[::k]), ('orders', fam.fam_orders()[::k]), ('placement', fam.fam_placement()[::k]),
                      ('storage_mip', fam.fam_storage_mip()[::k]), ('multi', fam.fam_multi()[::k]), ('takes', fam.fam_takes()[::k])]:
        for c in cfgs:
            real = R.Real(c)
            real.build()
            items.append(('%s_%d' % (tag, c['id']), real.portfolio, real.prices, real.timegrid))
    traces, meta = traces_of(chk, items, 'assembly')
    # the SAME portfolio object set up a second time, on a grid of equal length that starts two hours later (rolling window): sizes agree with the
    # first set-up, the content of the mapping does not -- nothing structural may be carried over from the first set-up
    import datetime as _dt
    again = []
    for z in zoo.ZOO:
        name, pf, pr, tg = z(seed)
        if tg.freq != 'h':
            continue
        try:
            with quiet():
                pf.setup_optim_problem(pr, tg)
            again.append((name, pf, pr, zoo.grid(tg.T, start=zoo.START + _dt.timedelta(hours=2))))
        except Exception:
            continue
    tr2, me2 = traces_of(chk, again, 'assembly_second_setup')
    traces += tr2
    meta += me2
    # every interval problem of a split set-up is a problem in its own right: its own mapping must describe its own variables
    for s_ in range(seed, seed + (1 if not th else 3)):
        for z in zoo.ZOO:
            name, pf, pr, tg = z(s_)
            iv = '4h' if name in ('coarse', 'coarse_window', 'periodic', 'periodic_duration') else '2h'
            sel = dict(check='assembly_trace', family='split_interval', portfolio=name)
            try:
                with quiet():
                    sop = pf.setup_split_optim_problem(pr, tg, interval_size=iv)
                # the grid of interval k has as many steps as the interval covers
                for k, o in enumerate(sop.ops):
                    Tk = int(len({int(t) for (t, n_) in o.map_nodal_restr})) if o.map_nodal_restr else int(tg.T)
                    nsteps = int(round(pd_steps(tg, iv, k)))
                    first = min([int(t) for (t, n_) in o.map_nodal_restr] or [0])
                    traces.append(ASM.assembly_trace(pf, pr, tg, o, global_only=True, T=nsteps, nodal_step_offset=(first // max(1, pd_per(tg, iv))) * pd_per(tg, iv)))
                    meta.append(dict(sel, interval=min(k, 2)))
                    chk.cnt['eval_interval_problems'] += 1
            except tlc.MachineryError:
                raise
            except Exception as e:
                chk.violation(dict(sel, check='setup_raises', error=type(e).__name__), 'split set-up raised %s: %s' % (type(e).__name__, e), dict(portfolio=name))
    # stand-alone assets: each asset's own problem as a one-asset "portfolio" without nodal rows is covered by the size /
    # label clauses on the per-asset tables inside every trace
    n_real = len(traces)
    bads = []
    for mut in ('label', 'cost', 'nodal', 'unmapped', 'node'):
        b = copy.deepcopy(next(t for t in traces if t['g']['nodal'] and len(t['g']['maprows']) > 3))
        if mut == 'label':
            b['g']['maprows'][2]['lab'] = b['g']['maprows'][1]['lab']
        elif mut == 'cost':
            b['g']['c'][0] += 1000
        elif mut == 'node':
            # a dispatch row moved to another node of the portfolio that its asset was not declared with (asset tables adjusted alike,
            # as a defect inside the asset's own set-up would do)
            b = copy.deepcopy(next(t for t in traces if t['mode'] == 'all' and len({r['node'] for r in t['g']['maprows'] if r['type'] == 'd'}) > 1))
            r0 = next(r for r in b['g']['maprows'] if r['type'] == 'd' and len(b['assets'][r['asset'] - 1]['nodes']) == 1)
            other = next(r['node'] for r in b['g']['maprows'] if r['type'] == 'd' and r['node'] != r0['node'])
            k, old_node = r0['asset'], r0['node']
            for r in b['g']['maprows']:
                if r['asset'] == k and r['node'] == old_node:
                    r['node'] = other
            for sg in b['assets'][k - 1]['sig']:
                for e in sg:
                    if e[0] == old_node:
                        e[0] = other
            for nd in b['g']['nodal']:
                pass
        elif mut == 'nodal':
            b['g']['nodal'] = b['g']['nodal'][1:]
        else:
            lab = b['g']['maprows'][0]['lab']
            b['g']['maprows'] = [r for r in b['g']['maprows'] if r['lab'] != lab]
        bads.append(b)
    verdicts, st = REC.validate_traces(traces + bads, module='Trace_EAOAssembly')
    chk.add_tlc(st)
    chk.traces += n_real
    if any(v[1] == 'accepted' for v in verdicts[n_real:]):
        raise tlc.MachineryError('anti-vacuity: corrupted assembly trace accepted: %s' % (verdicts[n_real:],))
    chk.notes['corrupted_assembly_verdicts'] = [v[1] for v in verdicts[n_real:]]
    for sel, (line, v), tr in zip(meta, verdicts, traces):
        if v == 'accepted':
            chk.cnt['assembly_traces_accepted'] += 1
            chk.nontrivial((sel['portfolio'],))
        else:
            chk.violation(dict(sel, clause=v), 'assembled problem violates clause "%s"' % v, dict(portfolio=sel['portfolio']))
    t0 = traces[0]
    chk.sample(dict(kind='assembly trace', portfolio=meta[0]['portfolio'], n=t0['g']['n'], maprows=t0['g']['maprows'][:4], nodal=t0['g']['nodal'][:2],
                    asset0=dict(n=t0['assets'][0]['n'], phi=t0['assets'][0]['phi'], sig=t0['assets'][0]['sig'][:2]), verdict=verdicts[0]))
    chk.assumptions += ["per-asset problems are obtained by asking each asset for its own problem with the same prices and grid (public API)"]
    return chk.finish(rule='model of the index algorithm over adversarial names x assets with unmapped variables (3 rules); assembly traces of the zoo (all asset types), '
                           'adversarial name sets, order books with out-of-horizon orders, and reference families; non-trivial = accepted assembly', exhaustive=False)
