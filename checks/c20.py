"""C20 order book: fraction in [0,1] (0/1 with full execution), delivery fraction x capacity x step length over the covered
steps, payment per covered step discounted per step, inert out-of-horizon orders."""
from harness import realise as R
from harness.check import CheckRun

from . import common, fam

RELAX = ['order_frac', 'order_full', 'cap', 'balance']


def run(tier, seed):
    chk = CheckRun('C20', tier, seed)
    th = tier == 'thorough'
    fams = [('orders', fam.fam_orders(thorough=th)), ('orders_dt', fam.fam_orders_dt()), ('orders_companions', fam.fam_orders_companions())]
    if th:
        fams.append(('orders_T4', fam.fam_orders(T=4)))
    for tag, cfgs in fams:
        def make_real(cfg, tag=tag):
            r = R.Real(cfg)
            if tag == 'orders':
                # the same order lists on a zone-aware grid, the order stamps given in the grid's zone and (the same instants) in other zones
                r_cet = R.Real(cfg, calendar='h_cet')
                r_utc = R.Real(cfg, calendar='h_cet')
                r_utc.order_zone = ['UTC', 'America/New_York'][cfg['id'] % 2]
                return [r, r_cet, r_utc] if (cfg['id'] + seed) % 2 == 0 or tier != 'quick' else [r]
            if tag == 'orders_companions':
                # fresh objects and objects that were set up before on the same grid must both conform to the same TLC behaviours
                r2 = R.Real(cfg)
                r2.presetups = 1
                return [r, r2]
            return r
        step = 3 if tier == 'quick' else 1
        neg = [c for k, c in enumerate(cfgs) if k % step == (seed % step)]
        pos = common.spec_to_code(chk, cfgs, make_real, relax=RELAX, neg_cfgs=neg, tag=tag)
        common.code_to_spec(chk, cfgs, make_real, tag=tag,
                            expect_feasible=(lambda c, pos=pos: bool(pos and pos['behs'].get(c['id']))))
    # the split route: order books whose orders each lie inside one interval, so that in every interval some orders are outside its grid
    from .c14 import SplitReal
    scfgs = fam.renumber([c for c in fam.fam_split(thorough=th) if any(a['kind'] == 'orderbook' for a in c['assets'])])
    pos = common.spec_to_code(chk, scfgs, lambda c: SplitReal(c), relax=RELAX, neg_cfgs=scfgs[seed % 2::2], tag='orders_split')
    common.code_to_spec(chk, scfgs, lambda c: SplitReal(c), tag='orders_split', split='cfg', chk_fields=())
    common.long_horizon(chk, tier, seed, [('orders', fam.fam_orders)], RELAX, T_quick=8, T_thorough=12)
    chk.assumptions += ['fraction lattice {0, 1/2, 1}; full execution decided exactly by enumeration']
    return chk.finish(rule='order lists (buy/sell, overlapping, straddling, wholly outside) x full/partial execution x companion assets x prices',
                      exhaustive=True)
