"""C12 time bookkeeping: the main time unit is irrelevant (rates and durations re-expressed); per-step limits and per-time costs
follow the actual step length (DST days, months)."""
import itertools

from harness import realise as R
from harness.check import CheckRun
from harness.replay import Problem

from . import c06, common, fam
from .c14 import SplitReal

RELAX = ['cap', 'rate', 'level_lo', 'level_hi', 'end_level', 'max_take', 'min_take', 'hold', 'balance']
MTUS = ('h', 'd', 'min', 's')


def run(tier, seed):
    chk = CheckRun('C12', tier, seed)
    th = tier == 'thorough'
    mtus = MTUS if th else ('h', 'd', 'min')
    fams = [('units', fam.fam_units(), mtus, False), ('units_transport', fam.fam_units_transport(), ('h', 'd', 'min'), False), ('dst', fam.fam_dst(), ('h', 'd'), False),
            # unequal steps crossed with durations (holding time between the lengths of two windows) and with a coarser asset frequency
            ('hold_dst', fam.fam_storage_hold_dst()[::1 if th else 3], ('h', 'd'), False), ('coarse_dst', fam.fam_coarse_dst()[seed % 2::1 if th else 2], ('h', 'd'), False), ('discount', fam.fam_discount(), ('h', 'd', 'min'), False),
            # fixed costs of a scaled asset are per main time unit
            ('scaled', fam.fam_scaled()[seed % 6::6 if not th else 1], ('h', 'd', 'min'), False),
            ('split', fam.renumber([c for c in fam.fam_split(thorough=th) if c['coupling'] in ('none', 'takes')] + fam.fam_split_discount()), mtus, True)]
    for tag, cfgs, ms, split in fams:
        cls = SplitReal if split else R.Real

        def make_real(cfg, cls=cls, ms=ms):
            return [cls(cfg, mtu=m) for m in ms]
        neg = cfgs[seed % 2::2] if not th else cfgs
        # the SAME TLC behaviours must be accepted / rejected and priced identically under every main time unit
        common.spec_to_code(chk, cfgs, make_real, relax=RELAX, neg_cfgs=neg, tag=tag)
        for m in ms:
            common.code_to_spec(chk, cfgs, lambda c, m=m, cls=cls: cls(c, mtu=m), tag=tag, split='cfg' if split else None,
                                chk_fields=('chdis',) if split else ('level', 'chdis'), solvers=('SCIPY',))
        # optimum under unit change
        for cfg in cfgs:
            vals = {}
            for m in ms:
                try:
                    vals[m] = Problem(cls(cfg, mtu=m).setup()).solve()[1]
                except Exception as e:
                    chk.violation(dict(check='setup_raises', family=tag, mtu=m, error=type(e).__name__), 'set-up raised %s: %s' % (type(e).__name__, e), dict(cfg=cfg))
            chk.cnt['eval_unit_pairs'] += 1
            ref = vals.get(ms[0])
            for m, v in vals.items():
                if (v is None) != (ref is None) or (v is not None and abs(v - ref) > 1e-6 * max(1, abs(ref))):
                    chk.violation(dict(check='value_depends_on_unit', family=tag, mtu=m, route='split' if split else 'mono'),
                                  'optimal value %s under main time unit %s differs from %s under %s' % (v, m, ref, ms[0]), dict(cfg=cfg))
            chk.nontrivial(('units', tag, cfg['id']))
    # durations of the unit-commitment automaton under other main time units: same reachable patterns
    ucs = c06.fam_patterns(4)[seed % 4::4] if not th else c06.fam_patterns(5)[seed % 2::2]
    behs, st = c06.enumerate_uc(ucs)
    chk.add_tlc(st)
    # (an undeclared initial state is accepted by the constructor only while min_downtime <= 1 main time unit: not comparable across units)
    ucs = [c for c in ucs if not (c['run0'] == 0 and c['off0'] == 0 and c['mindown'] > 0)]
    for c in ucs:
        reach = {tuple(bool(s_['on']) for s_ in b['steps']) for b in behs.get(c['id'], [])}
        for m in ('d', 'min'):
            try:
                real = c06.UCReal(c, mtu=m)
            except Exception as e:
                chk.violation(dict(check='setup_raises', family='uc', mtu=m, error=type(e).__name__), 'Plant set-up raised %s: %s' % (type(e).__name__, e), dict(cfg=c))
                continue
            if not real.has_on():
                continue
            for pat in itertools.product((False, True), repeat=c['T']):
                chk.cnt['eval_patterns'] += 1
                feas = real.prob.solve(real.pins([dict(on=o) for o in pat], what=('on',)))[0] == 'optimal'
                if feas != (pat in reach):
                    chk.violation(dict(check='uc_pattern_depends_on_unit', mtu=m, minrun=c['minrun'], mindown=c['mindown'], run0=c['run0'], off0=c['off0']),
                                  'pattern %s under main time unit %s: implementation %s, automaton %s' % (''.join('1' if o else '0' for o in pat), m, feas, pat in reach),
                                  dict(cfg=c))
    # plants with start / shutdown profiles (given per main time unit): objects that were set up before under ANOTHER main time unit must
    # accept exactly the behaviours of the profile automaton, with equal values
    rcfgs = [c for c in c06.fam_ramp_profiles(5, seed=seed) if not c.get('rfreq') and c['sr'] and not c['heat']][seed % 4::4]
    rbehs, st = c06.enumerate_ramp(rcfgs)
    chk.add_tlc(st)
    for c in rcfgs:
        for pre in ('min', 'd'):
            try:
                real = c06.RampReal(c, presetup_mtu=pre)
            except Exception as e:
                chk.violation(dict(check='setup_raises', family='ramp_after_other_unit', mtu=pre, error=type(e).__name__), 'set-up raised %s: %s' % (type(e).__name__, e), dict(cfg=c))
                continue
            for b in rbehs.get(c['id'], []):
                chk.cnt['eval_ramp_after_other_unit'] += 1
                stt, val, x = real.prob.solve(real.pins(b['steps']))
                if stt != 'optimal' or abs(val - b['val']) > 1e-7 * max(1, abs(val)):
                    chk.violation(dict(check='ramp_after_other_unit', mtu=pre, start_profile=len(c['sr']), shutdown_profile=len(c['dr'])),
                                  'behaviour of the profile automaton %s after the plant object had been set up under main time unit %s' % (
                                      'is infeasible' if stt != 'optimal' else 'is priced %.9g instead of %.9g' % (val, b['val']), pre), dict(cfg=c, behaviour=b))
                    break
            else:
                chk.nontrivial(('ramp_unit', c['id'], pre))
    # ... and profile plants (start / shutdown profiles, heat bounds, profile frequency, ordinary ramp limit) realised UNDER other main time
    # units with rates and durations re-expressed: the same behaviours of the profile automaton, the same reachable patterns
    pcfgs = [c for c in c06.fam_ramp_profiles(5, thorough=th, seed=seed) if c['run0'] == 0 or c['heat']][seed % 3::3]
    pbehs, st = c06.enumerate_ramp(pcfgs)
    chk.add_tlc(st)
    for c in pcfgs:
        reach = {tuple(bool(s_['on']) for s_ in b['steps']) for b in pbehs.get(c['id'], [])}
        for m in ('min', 'd'):
            selp = dict(check='ramp_profiles_under_unit', mtu=m, heat=c['heat'], ramp_freq=c.get('rfreq') or 'grid', ramp=c.get('ramp', -1) >= 0)
            try:
                real = c06.RampReal(c, mtu=m)
            except Exception as e:
                chk.violation(dict(selp, check='setup_raises', error=type(e).__name__), 'set-up raised %s: %s' % (type(e).__name__, e), dict(cfg=c))
                continue
            ok = True
            for b in pbehs.get(c['id'], []):
                chk.cnt['eval_ramp_profiles_under_unit'] += 1
                stt, val, x = real.prob.solve(real.pins(b['steps']))
                if stt != 'optimal' or abs(val - b['val']) > 1e-6 * max(1, abs(val)):
                    chk.violation(selp, 'behaviour of the profile automaton %s under main time unit %s' % ('is infeasible' if stt != 'optimal' else 'is priced %.9g instead of %.9g' % (val, b['val']), m),
                                  dict(cfg=c, behaviour=b))
                    ok = False
                    break
            for pat in itertools.product((False, True), repeat=c['T']):
                chk.cnt['eval_patterns'] += 1
                feas = real.prob.solve(real.pins([dict(on=o) for o in pat], what=('on',)))[0] == 'optimal'
                if feas != (pat in reach):
                    chk.violation(dict(selp, check='ramp_pattern_depends_on_unit'), 'pattern %s under main time unit %s: implementation %s, profile automaton %s' % (
                        ''.join('1' if o else '0' for o in pat), m, feas, pat in reach), dict(cfg=c))
                    ok = False
                    break
            if ok:
                chk.nontrivial(('ramp_under_unit', c['id'], m))
    chk.assumptions += ['rates (capacities, inflow, holding cost) and durations are re-expressed by the harness for each main time unit',
                        'unequal steps: calendar days across the CET switches and calendar months']
    return chk.finish(rule='families with every per-time quantity (units), unequal steps (dst, months), discounting, split; each realised under %s; '
                           'unit-commitment durations under d/min' % (mtus,), exhaustive=True)
