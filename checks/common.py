"""Pipeline P shared by the EAOModel-based checks (C01, C02, C04, C05, C08, C12, C13, C14, C16, C20)."""
import collections
import copy
import numpy as np
import random

from harness import pipeline as P
from harness import realise as R
from harness import record as REC
from harness.tlc import MachineryError


def cfg_features(cfg):
    """coarse description of a configuration, used in violation selectors / known-finding predicates"""
    f = dict(kinds=sorted({a['kind'] for a in cfg['assets']}), T=cfg['T'])
    st = [a for a in cfg['assets'] if a['kind'] == 'storage']
    f['inflow'] = any(a['inflow'] != 0 for a in st)
    f['blocks'] = any(a['blocks'] for a in st)
    f['block_end_aligned'] = False
    for a in st:
        if a['blocks']:
            first = max(a['ws'], 1)
            last = min(a['we'] - 1, cfg['T'])
            L = min(a['blocks']) - first
            f['block_end_aligned'] = f['block_end_aligned'] or ((last - first + 1) % L == 0)
    f['two_node_storage'] = any(a['nin'] != a['nout'] for a in st)
    f['maxhold'] = any(a['maxhold'] >= 0 for a in st)
    f['start_level'] = any(a['start'] != 0 for a in st)
    f['coarse'] = any(any(a.get('group', [])) for a in cfg['assets'])
    f['periodic'] = any(any(a.get('per', [])) for a in cfg['assets'])
    f['outside'] = any(a.get('ws', 1) > cfg['T'] or a.get('we', 2) <= 1 for a in cfg['assets'])
    f['order_outside'] = any(a['kind'] == 'orderbook' and any(o['e'] <= 0 or o['s'] >= cfg['tp'][-1] for o in a['orders'])
                             for a in cfg['assets'])
    return f


def real_desc(real):
    return dict(calendar=real.calendar, mtu=real.mtu, form=real.form, order=real.order,
                names=[real.names(i) for i in range(len(real.cfg['assets']))],
                struct=real.struct, scaled=real.scaled)


def spec_to_code(chk, cfgs, make_reals, relax=(), neg_cfgs=None, tag='', check_optimum=True, simulate_neg=None, sel_hook=None):
    """TLC enumerates `cfgs` strictly (all invariants), and `neg_cfgs` (default: none) with the guards in `relax`
    relaxed; every behaviour is replayed into every realisation."""
    pos = P.enumerate_family(cfgs, name='MCpos')
    chk.add_tlc(pos['stats'])
    if pos['stats']['violated']:
        chk.violation(dict(check='spec_invariant', invariant=pos['stats']['violated'], family=tag),
                      'TLC: invariant %s violated on the specification itself' % pos['stats']['violated'], pos['stats'].get('tlc_tail'))
        return
    negb = {}
    if relax and neg_cfgs:
        neg = P.enumerate_family(neg_cfgs, relax=relax, name='MCneg', simulate=simulate_neg)
        chk.add_tlc(neg['stats'])
        negb = {k: [b for b in v if b['fault']] for k, v in neg['behs'].items()}
        chk.cnt['near_miss_prefixes'] += sum(len(v) for v in negb.values())
    chk.cnt['strict_behaviours'] += pos['stats']['n_beh']

    def onv(kind, cfg, real, beh, why):
        sel = dict(check='replay_' + kind, family=tag, fault=(beh or {}).get('fault', ''))
        sel.update(cfg_features(cfg))
        sel.update(calendar=real.calendar, mtu=real.mtu, route='mono')
        if sel_hook:
            sel_hook(sel, cfg)
        if kind == 'setup_raises':
            sel['error'] = why.split(':')[0]
        chk.violation(sel, why, dict(cfg=cfg, realisation=real_desc(real), behaviour=beh))
    cnt = collections.Counter()
    P.conform_family(cfgs, pos['behs'], negb, make_reals, onv, cnt, check_optimum=check_optimum)
    for k, v in cnt.items():
        chk.cnt[k] += v
    chk.cnt['eval_replayed'] += cnt['pos'] + cnt['neg_rejected'] + cnt['neg_ACCEPTED'] + cnt['neg_skipped']
    for c in cfgs:
        if pos['behs'].get(c['id']):
            chk.nontrivial(('cfg', tag, c['id']))
    for c in cfgs[:1]:
        b = pos['behs'].get(c['id'], [None])[0]
        chk.sample(dict(kind='spec behaviour replayed into the implementation', family=tag, cfg=c, behaviour=b), limit=3)
    return pos


def spec_to_code_sim(chk, cfgs, make_reals, relax=(), num=100, num_neg=8, seed=0, tag='', max_neg_per_cfg=120, sel_hook=None):
    """Long horizons (T beyond what TLC can enumerate): TLC -simulate walks the specification at random.
    * every complete strict behaviour of the walks must be feasible in the implementation, with the same value;
    * the implementation's optimum is at least the best sampled value;
    * near-miss successors seen along relaxed walks must have no feasible completion.  The strict behaviours are only
      sampled here, so a near-miss that the implementation completes is not yet a violation (after projection it may
      coincide with a strict behaviour): the completion the implementation found is recorded as a trace and the TRACE
      specification decides -- rejected => the implementation admits a point the specification forbids (violation, the
      failed guard is named); accepted => coincidence, counted."""
    import numpy as np
    from harness.realise import eao, quiet
    T = max(c['T'] for c in cfgs)
    pos = P.enumerate_family(cfgs, name='MCsimpos', simulate=num, depth=T + 4, seed=seed + 1, workers=1)
    chk.add_tlc(pos['stats'])
    if pos['stats']['violated']:
        chk.violation(dict(check='spec_invariant', invariant=pos['stats']['violated'], family=tag),
                      'TLC (simulation): invariant %s violated on the specification itself' % pos['stats']['violated'], pos['stats'].get('tlc_tail'))
        return
    behs = {}
    for cid, v in pos['behs'].items():
        seen = {}
        for b in v:
            if not b['fault']:
                seen[repr((b['frac'], b['steps']))] = b
        behs[cid] = list(seen.values())
    negb = {}
    if relax and num_neg:
        neg = P.enumerate_family(cfgs, relax=relax, name='MCsimneg', simulate=num_neg, depth=T + 4, seed=seed + 2, workers=1)
        chk.add_tlc(neg['stats'])
        rnd = random.Random(seed)
        for cid, v in neg['behs'].items():
            seen = {}
            for b in v:
                if b['fault']:
                    seen[repr((b['frac'], b['steps'], b['fault']))] = b
            lst = list(seen.values())
            # prefer the late near-misses (the early ones are what the exhaustive short-horizon families already cover)
            lst.sort(key=lambda b: -b['at'])
            late = lst[:max_neg_per_cfg // 2]
            rest = lst[max_neg_per_cfg // 2:]
            rnd.shuffle(rest)
            negb[cid] = late + rest[:max_neg_per_cfg - len(late)]
    chk.cnt['sim_strict_behaviours'] += sum(len(v) for v in behs.values())
    chk.cnt['sim_near_miss_prefixes'] += sum(len(v) for v in negb.values())
    pending = []      # (trace, sel, why, replay) of completed near-misses, decided by the trace specification below
    for cfg in cfgs:
        reals = make_reals(cfg)
        if not isinstance(reals, (list, tuple)):
            reals = [reals]
        for real in reals:
            sel0 = dict(family=tag)
            sel0.update(cfg_features(cfg))
            sel0.update(calendar=real.calendar, mtu=real.mtu, route='mono')
            if sel_hook:
                sel_hook(sel0, cfg)
            try:
                cf = P.Conformer(real)
            except MachineryError:
                raise
            except Exception as e:
                chk.violation(dict(sel0, check='replay_setup_raises', error=type(e).__name__), '%s: %s' % (type(e).__name__, e), dict(cfg=cfg, realisation=real_desc(real)))
                continue
            best = None
            for b in behs.get(cfg['id'], []):
                chk.cnt['sim_pos'] += 1
                chk.cnt['eval_replayed'] += 1
                why = cf.positive(b)
                if why:
                    chk.violation(dict(sel0, check='replay_positive', fault=''), why, dict(cfg=cfg, realisation=real_desc(real), behaviour=b))
                best = b['val'] if best is None or b['val'] > best else best
            if best is not None:
                chk.nontrivial(('simcfg', tag, cfg['id']))
                st, val, x = cf.optimum()
                lat = best / cf.scale
                if st == 'infeasible' or (st == 'optimal' and val < lat - 1e-6 * max(1, abs(lat))):
                    chk.violation(dict(sel0, check='replay_optimum', fault=''), 'implementation optimum (%s, %s) below a behaviour of the specification worth %.9g' % (st, val, lat),
                                  dict(cfg=cfg, realisation=real_desc(real)))
                else:
                    chk.cnt['sim_opt_at_least_sampled'] += 1
            keys = cf.prefix_keys(behs.get(cfg['id'], []))
            for b in negb.get(cfg['id'], []):
                verdict, why = cf.negative(b, keys)
                chk.cnt['eval_replayed'] += 1
                chk.cnt['sim_neg_' + verdict] += 1
                chk.cnt['fault_' + b['fault']] += 1
                if verdict == 'ACCEPTED':
                    x = np.asarray(cf.last_completion, float)
                    try:
                        with quiet():
                            res = eao.optimization.Results(value=float(-cf.prob.c @ x), x=x, duals=None)
                            out = eao.io.extract_output(real.portfolio, cf.op, res)
                        tr = REC.make_trace(real, cf.op, res, out, K=1000, tol=3, chk=(), tid=len(pending) + 1)
                    except MachineryError:
                        raise
                    pending.append((tr, dict(sel0, check='replay_negative', fault=b['fault']), why, dict(cfg=cfg, realisation=real_desc(real), behaviour=b)))
    if pending:
        verdicts, st = REC.validate_traces([p[0] for p in pending])
        chk.add_tlc(st)
        for (tr, sel, why, rep), (line, v) in zip(pending, verdicts):
            if v == 'accepted':
                chk.cnt['sim_neg_coincides_with_strict_behaviour'] += 1
            else:
                chk.violation(dict(sel, guard=v.split('@')[0]), why + '; the completion found by the implementation is rejected by the specification (%s)' % v, rep)
    return behs


def long_horizon(chk, tier, seed, items, relax, make_real=None, T_quick=10, T_thorough=16):
    """the simulated replay (spec_to_code_sim) over families rebuilt with a long horizon; items = [(tag, family function taking T)]"""
    th = tier == 'thorough'
    T = T_thorough if th else T_quick
    for tag, f in items:
        cfgs = f(T=T)
        k = max(1, len(cfgs) // (24 if th else 6))
        cfgs = cfgs[seed % k::k]
        spec_to_code_sim(chk, cfgs, make_real or (lambda c: R.Real(c)), relax=relax, num=240 if th else 60, num_neg=12 if th else 4, seed=seed,
                         tag=tag + '_T%d_sim' % T)
    chk.assumptions.append('long horizons (T = %d): behaviours sampled by TLC -simulate, not enumerated; the optimum is only bounded from below there' % T)


def code_to_spec(chk, cfgs, make_reals, tag='', solvers=('SCIPY', None), split=None, chk_fields=('level', 'chdis'),
                 expect_feasible=None, corrupt=True, K=1000, tol=3, sel_hook=None):
    """run the real pipeline for every cfg x realisation x solver, validate the recorded traces with TLC"""
    traces, meta = [], []
    for cfg in cfgs:
        reals = make_reals(cfg)
        if not isinstance(reals, (list, tuple)):
            reals = [reals]
        for real0 in reals:
            for solver in solvers:
                real = copy.copy(real0)
                real.assets = None
                real.prices = {}
                sel = dict(check='trace', family=tag, solver=str(solver), calendar=real.calendar, mtu=real.mtu,
                           route=('split:' + (cfg.get('interval', '?') if split == 'cfg' else split)) if split else 'mono')
                sel.update(cfg_features(cfg))
                if sel_hook:
                    sel_hook(sel, cfg)
                try:
                    op, res, out = REC.run_pipeline(real, solver=solver, split=split)
                except MachineryError:
                    raise
                except Exception as e:
                    sel.update(check='pipeline_raises', error=type(e).__name__)
                    chk.violation(sel, 'pipeline raised %s: %s' % (type(e).__name__, e), dict(cfg=cfg, realisation=real_desc(real)))
                    continue
                chk.cnt['eval_pipeline_runs'] += 1
                if isinstance(res, str):
                    chk.cnt['pipeline_' + res.replace(' ', '_')] += 1
                    # a failure report is not judged here: whether the assembled problem admits the specification's
                    # behaviours is decided by the replay (independent oracle); solver defects belong to C03
                    if expect_feasible and expect_feasible(cfg) and res != 'inaccurate':
                        chk.cnt['pipeline_failure_although_spec_feasible_solver_%s' % solver] += 1
                    continue
                try:
                    tr = REC.make_trace(real, op, res, out, K=K, tol=tol if solver == 'SCIPY' else max(tol, 5), chk=chk_fields,
                                        tid=len(traces) + 1)
                except MachineryError:
                    raise
                traces.append(tr)
                meta.append((cfg, real, sel, float(res.value)))
    n_real = len(traces)
    if corrupt and traces:
        bad = copy.deepcopy(traces[0])
        ev = bad['steps'][0]
        for i, lg in enumerate(ev['legs']):
            if lg:
                lg[-1] += 50 * bad['K']
                break
        traces.append(bad)
    verdicts, st = REC.validate_traces(traces)
    chk.add_tlc(st)
    chk.traces += n_real
    for (cfg, real, sel, value), (line, v) in zip(meta, verdicts[:n_real]):
        if v == 'accepted':
            chk.cnt['traces_accepted'] += 1
            chk.nontrivial(('trace', tag, cfg['id'], sel['solver'], sel['calendar'], sel['mtu']))
        else:
            s2 = dict(sel)
            guard = v.split('@')[0]
            s2.update(guard=guard, line=line)
            chk.violation(s2, 'trace rejected at line %d: %s' % (line, v), dict(cfg=cfg, realisation=real_desc(real)))
    if corrupt and traces:
        if verdicts[-1][1] == 'accepted':
            raise MachineryError('anti-vacuity: corrupted trace was accepted by the trace specification')
        chk.cnt['corrupted_traces_rejected'] += 1
        chk.notes['corrupted_trace_verdict'] = verdicts[-1][1]
    if traces:
        chk.sample(dict(kind='trace recorded from the implementation (first of batch)', family=tag,
                        verdict=verdicts[0], trace={k: traces[0][k] for k in ('K', 'tol', 'frac', 'rval', 'rdcf', 'cx')},
                        first_step=traces[0]['steps'][0]), limit=4)
    return meta, verdicts


# ---------------------------------------------------------------------------------------------- generic layer (zoo)
def zoo_portfolio_traces(chk, seeds, routes=('mono', 'split', 'io'), zoo_list=None, clause_filter=None, tag='zoo', orders=('given', 'reversed'),
                         clauses=('balance', 'accounting')):
    """optimise every zoo portfolio along every route, validate the reported tables with Trace_Portfolio.
    clause_filter(verdict) -> bool selects the rejections that belong to the calling property."""
    from harness import zoo
    from harness.realise import eao, quiet
    traces, meta = [], []
    for seed in seeds:
        for z in (zoo_list or zoo.ZOO):
            for route, order in [(r, o) for r in routes for o in orders]:
                name, pf, pr, tg = z(seed)
                if order == 'reversed':
                    if route == 'io':
                        continue
                    pf = eao.portfolio.Portfolio(list(reversed(pf.assets)))      # the same assets given in the opposite order
                sel = dict(check='portfolio_trace', family=tag, portfolio=name, route=route, order=order)
                try:
                    with quiet():
                        if route == 'mono':
                            op = pf.setup_optim_problem(pr, tg)
                            res = op.optimize()
                            out = eao.io.extract_output(pf, op, res) if not isinstance(res, str) else None
                        elif route == 'inner':
                            # the Portfolio object wrapped by a structured / linked asset, optimised on its own AFTER the surrounding portfolio
                            # was set up and optimised: being wrapped must leave nothing on it
                            inner = [a.portfolio for a in pf.assets if hasattr(a, 'portfolio')]
                            if not inner:
                                continue
                            op0 = pf.setup_optim_problem(pr, tg)
                            op0.optimize()
                            pf = inner[0]
                            op = pf.setup_optim_problem(pr, tg)
                            res = op.optimize()
                            out = eao.io.extract_output(pf, op, res) if not isinstance(res, str) else None
                        elif route == 'robust':
                            # robust target over three price scenarios (the given prices, all prices halved, all prices raised by a half):
                            # whatever the objective, the reported value is minus cost times solution and the tables add up to it
                            op = pf.setup_optim_problem(pr, tg)
                            cs = pf.create_cost_samples([pr, {k: np.asarray(v, float) * 0.5 for k, v in pr.items()},
                                                         {k: np.asarray(v, float) * 1.5 for k, v in pr.items()}], tg)
                            res = op.optimize(target='robust', samples=cs)
                            out = eao.io.extract_output(pf, op, res) if not isinstance(res, str) else None
                        elif route == 'split':
                            # an interval must hold at least one coarse step / one period of every asset
                            op = pf.setup_split_optim_problem(pr, tg, interval_size='4h' if name.split('/')[0] in ('coarse', 'coarse_window', 'periodic', 'periodic_duration') else '2h')
                            res = op.optimize()
                            out = eao.io.extract_output(pf, op, res) if not isinstance(res, str) else None
                        else:
                            # the shortcut does everything; redo set-up/optimise identically to obtain op/res for the trace
                            out = eao.io.optimize(pf, tg, pr)
                            if out['dispatch'] is None:
                                res = 'not successful'
                            else:
                                op = pf.setup_optim_problem(pr, tg)
                                res = op.optimize()
                except MachineryError:
                    raise
                except Exception as e:
                    if route == 'split' and name.split('/')[0] in SPLIT_UNSUPPORTED:
                        chk.cnt['split_not_applicable'] += 1
                        continue
                    chk.violation(dict(sel, check='pipeline_raises', error=type(e).__name__), 'pipeline raised %s: %s' % (type(e).__name__, e), dict(portfolio=name, seed=seed))
                    continue
                chk.cnt['eval_pipeline_runs'] += 1
                if isinstance(res, str) or out is None or out.get('dispatch') is None:
                    chk.cnt['pipeline_' + str(res).replace(' ', '_')] += 1
                    continue
                traces.append(REC.portfolio_trace(pf, op, res, out, chk=clauses))
                meta.append((sel, seed))
    if not traces:
        return
    bad = copy.deepcopy(traces[0])
    bad['steps'][0]['rflow'][0][0] += 7000
    bad2 = copy.deepcopy(traces[0])
    bad2['rval'] += 9000
    verdicts, st = REC.validate_traces(traces + [bad, bad2], module='Trace_Portfolio')
    chk.add_tlc(st)
    chk.traces += len(traces)
    if ('accounting' in clauses and verdicts[-1][1] == 'accepted') or ('balance' in clauses and verdicts[-2][1] == 'accepted'):
        raise MachineryError('anti-vacuity: corrupted portfolio trace accepted %s' % (verdicts[-2:],))
    chk.notes['corrupted_portfolio_trace_verdicts'] = [verdicts[-2][1], verdicts[-1][1]]
    for (sel, seed), (line, v), tr in zip(meta, verdicts, traces):
        if v == 'accepted' or (clause_filter and not clause_filter(v)):
            chk.cnt['portfolio_traces_accepted' if v == 'accepted' else 'portfolio_traces_rejected_for_other_property'] += 1
            chk.nontrivial(('ptrace', sel['portfolio'], sel['route'], seed))
        else:
            chk.violation(dict(sel, guard=v.split('@')[0], where=v), 'reported tables rejected at line %d: %s' % (line, v), dict(portfolio=sel['portfolio'], seed=seed, route=sel['route']))
    chk.sample(dict(kind='portfolio trace (reported dispatch / DCF tables)', portfolio=meta[0][0]['portfolio'], first_step=traces[0]['steps'][0],
                    cx=traces[0]['cx'], rval=traces[0]['rval'], verdict=verdicts[0]), limit=6)


# portfolios for which setup_split_optim_problem is not applicable by construction (asset state across intervals is
# declared once: plants' initial state, linked assets; order books / periodic assets need the whole grid)
SPLIT_UNSUPPORTED = set()


def harvested_test_suite(chk, clauses, clause_filter):
    """thorough tiers: every output the repository's own tests produce (hook in io.extract_output, guard EAO_VERIF_TRACE) validated by Trace_Portfolio"""
    from harness import harvest
    recs, summary = harvest.run_tests()
    chk.notes['harvest_test_suite'] = dict(records=len(recs), pytest=summary)
    failed = [r for r in recs if r.get('event') != 'extract_output']
    if failed:
        raise MachineryError('trace hook failed inside the library: %s' % failed[:2])
    traces = [t for t in (harvest.to_trace(r, chk=clauses) for r in recs) if t]
    if not traces:
        raise MachineryError('test-suite harvesting produced no trace (hook not active?)')
    verdicts, st = REC.validate_traces(traces, module='Trace_Portfolio')
    chk.add_tlc(st)
    chk.traces += len(traces)
    for k, ((line, v), tr) in enumerate(zip(verdicts, traces)):
        if v == 'accepted' or (clause_filter and not clause_filter(v)):
            chk.cnt['harvested_outputs_accepted'] += 1
            chk.nontrivial(('harvest', k))
        else:
            chk.violation(dict(check='harvested_output', guard=v.split('@')[0], assets='|'.join(tr['names'])[:80], T=tr['T']),
                          'output produced by the repository tests rejected at line %d: %s' % (line, v), dict(names=tr['names'], T=tr['T']))
