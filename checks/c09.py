"""C09 results do not depend on asset / node names or on the order of assets.

Specification level: EAOModel refers to assets and nodes only by position / identity -- checked by TLC as symmetry: the
behaviours of a configuration and of the same configuration with its assets permuted and nodes renamed are the same up to
the permutation (two TLC enumerations compared).  Binding: ONE TLC output per configuration is replayed into realisations under
every permutation of the asset list and an adversarial catalogue of injective renamings; values, dispatch and cash flows must
agree up to the relabelling."""
import copy
import itertools
import random

from harness import pipeline as P
from harness import realise as R
from harness.check import CheckRun
from harness.replay import Problem

from . import common, fam

RENAMINGS = [
    ('plain', lambda i: 'a%d' % (i + 1), lambda n: n),
    ('digits', lambda i: ['1', '11', '111', '2', '12', '21'][i], lambda n: {'n1': '1', 'n2': '11', 'ni': '2'}.get(n, n)),
    ('prefix_suffix', lambda i: ['a', 'ab', 'b', 'ba', 'aba', 'bab'][i], lambda n: {'n1': 'a', 'n2': 'ab', 'ni': 'b'}.get(n, n)),
    ('separators', lambda i: ['x__y', 'x', 'y (x)', 'x_internal_y', '__', ' ('][i], lambda n: {'n1': 'x', 'n2': 'y', 'ni': 'x__y'}.get(n, n)),
    ('numeric_like', lambda i: ['0', '00', '10', '01', '1.0', '1e1'][i], lambda n: {'n1': '0', 'n2': '00', 'ni': '10'}.get(n, n)),
]


def permuted_cfg(cfg, perm, nodemap):
    c = copy.deepcopy(cfg)
    c['assets'] = [c['assets'][i] for i in perm]
    ren = lambda n: nodemap.get(n, n)
    for a in c['assets']:
        for k in ('node', 'n1', 'n2', 'nin', 'nout'):
            if k in a and a[k] != '_none_':
                a[k] = ren(a[k])
        if 'mnodes' in a:
            a['mnodes'] = [ren(n) for n in a['mnodes']]
    c['nodes'] = {ren(n) for n in c['nodes']}
    c['id'] = cfg['id'] + 5000
    return c


ZOO_CATALOGUES = [
    ('prefix', ['a', 'ab', 'abc', 'abcd', 'b', 'ba', 'bab', 'a_b', 'ab_', 'abcde']),
    ('digits', ['1', '11', '111', '2', '12', '21', '112', '211', '1111', '10']),
    ('separators', ['x__y', 'x', 'y (x)', 'x_internal_y', '__', ' (', 'y', 'x__', '__y', 'x (y)']),
]


def zoo_renamings(chk, tier, seed):
    """ALL asset types (zoo portfolios incl. plant, CHP, scaled, structured and linked assets, order books, coarse / periodic assets): the
    same portfolio built under adversarial names -- names that are prefixes of each other, digit strings, names containing the
    separators the library uses -- assigned in both directions (so that every asset once carries the shorter and once the longer name of
    a pair), and with the asset list reversed.  The optimal value must be the one of the plain build; the reported tables are validated by
    TLC (Trace_Portfolio: balance and accounting found under the new names)."""
    from harness import zoo
    from harness.realise import eao, quiet
    th = tier == 'thorough'
    builders = []
    for z in zoo.ZOO:
        seen_a, seen_n = [], []

        def rec_a(n, seen=seen_a):
            if n not in seen:
                seen.append(n)
            return n

        def rec_n(n, seen=seen_n):
            if n not in seen:
                seen.append(n)
            return n
        with zoo.renamed(asset=rec_a, node=rec_n):
            name, pf, pr, tg = z(seed)
        with quiet():
            ref = pf.setup_optim_problem(pr, tg).optimize()
        if isinstance(ref, str):
            continue
        cats = ZOO_CATALOGUES if th else [ZOO_CATALOGUES[(seed + len(builders)) % len(ZOO_CATALOGUES)], ZOO_CATALOGUES[0]]
        for cname, cat in {c[0]: c for c in cats}.values():
            for direction in ('up', 'down'):
                an = sorted(seen_a)
                nn = sorted(seen_n)
                amap = dict(zip(an if direction == 'up' else an[::-1], cat))
                nmap = dict(zip(nn if direction == 'up' else nn[::-1], cat[::-1]))
                if len(amap) < len(an) or len(nmap) < len(nn):
                    raise common.MachineryError('catalogue %s too short for portfolio %s' % (cname, name))

                def build(sd, z=z, amap=amap, nmap=nmap, name=name, cname=cname, direction=direction):
                    with zoo.renamed(asset=lambda n: amap[n], node=lambda n: nmap[n]):
                        nm, pf2, pr2, tg2 = z(sd)
                    return '%s/%s/%s' % (nm, cname, direction), pf2, pr2, tg2
                builders.append((name, cname, direction, build, float(ref.value)))
    for name, cname, direction, build, refval in builders:
        for order in ('given', 'reversed', 'interleaved'):
            sel = dict(check='zoo_value_depends_on_names_or_order', portfolio=name, renaming=cname, direction=direction, order=order)
            chk.cnt['eval_zoo_renamings'] += 1
            try:
                _, pf, pr, tg = build(seed)
                if order == 'reversed':
                    pf = eao.portfolio.Portfolio(list(reversed(pf.assets)))
                elif order == 'interleaved':      # first, last, second, last but one, ...: neighbours in the given order are separated
                    al = list(pf.assets)
                    if len(al) < 3:
                        continue
                    il = []
                    while al:
                        il.append(al.pop(0))
                        if al:
                            il.append(al.pop(-1))
                    pf = eao.portfolio.Portfolio(il)
                with quiet():
                    res = pf.setup_optim_problem(pr, tg).optimize()
            except Exception as e:
                chk.violation(dict(sel, check='zoo_setup_raises', error=type(e).__name__), 'renamed portfolio raised %s: %s' % (type(e).__name__, str(e)[:200]), dict(portfolio=name, seed=seed))
                continue
            if isinstance(res, str) or abs(float(res.value) - refval) > 1e-6 * max(1., abs(refval)):
                chk.violation(sel, 'optimum %s of portfolio %s under renaming %s (%s, order %s) differs from %s under the plain names'
                              % (res if isinstance(res, str) else res.value, name, cname, direction, order, refval), dict(portfolio=name, seed=seed))
            else:
                chk.nontrivial(('zoo_names', name, cname, direction, order))
    # the reported tables under the new names: balance and accounting, decided by TLC
    # (monolithic and split set-up, the asset list as given and reversed: per-asset dispatch and cash flows must be found under the new names and
    #  at the new positions)
    common.zoo_portfolio_traces(chk, seeds=[seed], routes=('mono', 'split'), zoo_list=[b[3] for b in builders if th or b[2] == 'up'], tag='zoo_renamed',
                                orders=('given', 'reversed'))


def run(tier, seed):
    chk = CheckRun('C09', tier, seed)
    th = tier == 'thorough'
    rnd = random.Random(seed)
    fams = [('composite', fam.fam_composite()[seed % 5::5] if not th else fam.fam_composite()[::3]),
            # (books of at most two orders here: every configuration is replayed under five renamings and several permutations)
            ('orders', [c for c in fam.fam_orders() if len(c['assets'][0]['orders']) <= 2][seed % 8::8] if not th else fam.fam_orders()[::3]),
            ('structured', fam.fam_structured()[::3] if not th else fam.fam_structured()),
            # assets with different discount rates side by side: what one asset leaves on the shared grid must not reach the next, in any order
            ('discount', [c for c in fam.fam_discount() if th or len({a.get('wacc', -1) for a in c['assets']}) > 1])]
    for tag, cfgs in fams:
        # ---- specification level: symmetry under permutation of assets and renaming of nodes
        perms = {}
        pcfgs = []
        for c in cfgs:
            n = len(c['assets'])
            perm = list(range(n))
            rnd.shuffle(perm)
            nodes = sorted(c['nodes'])
            nm = dict(zip(nodes, ['z%d' % k for k in range(len(nodes), 0, -1)]))
            perms[c['id']] = (perm, nm)
            pcfgs.append(permuted_cfg(c, perm, nm))
        pos = P.enumerate_family(cfgs, name='MCsym0')
        pos2 = P.enumerate_family(pcfgs, name='MCsym1')
        chk.add_tlc(pos['stats'])
        chk.add_tlc(pos2['stats'])
        for c, pc in zip(cfgs, pcfgs):
            perm, nm = perms[c['id']]
            s0 = {(tuple(tuple(tuple(st['legs'][i]) for i in perm) for st in b['steps']), b['val'], tuple(tuple(b['frac'][i]) for i in perm)) for b in pos['behs'].get(c['id'], [])}
            s1 = {(tuple(tuple(tuple(lg) for lg in st['legs']) for st in b['steps']), b['val'], tuple(tuple(f) for f in b['frac'])) for b in pos2['behs'].get(pc['id'], [])}
            chk.cnt['eval_symmetry'] += 1
            if s0 != s1:
                chk.violation(dict(check='spec_symmetry', family=tag), 'specification: behaviours change under permutation of assets / renaming of nodes', dict(cfg=c, perm=perm))
        # ---- binding: the same TLC output against every permutation x renaming
        def reals(cfg, tag=tag):
            n = len(cfg['assets'])
            all_perms = list(itertools.permutations(range(n)))
            rnd2 = random.Random(seed * 1000 + cfg['id'])
            chosen = all_perms if (th and n <= 4) else [all_perms[0]] + rnd2.sample(all_perms[1:], min(3, len(all_perms) - 1))
            # every renaming occurs at least once per configuration (first with the identity order), then the permutations rotate through them
            chosen = [all_perms[0]] * len(RENAMINGS) + list(chosen[1:])
            out = []
            for k, perm in enumerate(chosen):
                rname, fa, fn = RENAMINGS[k % len(RENAMINGS)]
                kw = dict(names=fa, nodes=fn, order=perm)
                if cfg.get('struct'):
                    kw['struct'] = cfg['struct']
                r = R.Real(cfg, **kw)
                r._struct_name = ['STRUCT', '9', 'zz', 'w__w', '99'][(k + cfg['id']) % 5]
                r.renaming = rname
                out.append(r)
            return out

        def hook(sel, cfg):
            pass
        common.spec_to_code(chk, cfgs, reals, relax=['cap', 'balance', 'end_level', 'order_frac'], neg_cfgs=cfgs[::2], tag=tag)
        # optimum must not depend on names / order
        for cfg in cfgs:
            vals = []
            for r in reals(cfg):
                try:
                    vals.append((r.renaming, r.order, Problem(r.setup()).solve()[1]))
                except Exception as e:
                    chk.violation(dict(check='setup_raises', family=tag, renaming=r.renaming, error=type(e).__name__), 'set-up raised %s: %s' % (type(e).__name__, e),
                                  dict(cfg=cfg, order=r.order))
            chk.cnt['eval_realisations'] += len(vals)
            ref = vals[0][2] if vals else None
            for rn, order, v in vals:
                if (v is None) != (ref is None) or (v is not None and abs(v - ref) > 1e-7 * max(1, abs(ref))):
                    chk.violation(dict(check='value_depends_on_names_or_order', family=tag, renaming=rn), 'optimum %s under renaming %s / order %s differs from %s' % (v, rn, order, ref),
                                  dict(cfg=cfg, order=order))
            chk.nontrivial(('names', tag, cfg['id']))
        # traces under renamings (dispatch / DCF tables are found by the new names)
        common.code_to_spec(chk, cfgs, lambda c: [r for r in reals(c) if not r.struct][:2], tag=tag, chk_fields=(), solvers=('SCIPY',))
    zoo_renamings(chk, tier, seed)
    chk.assumptions += ['names distinct; catalogue of adversarial renamings (digit-only, prefixes/suffixes of each other, containing the separators "__", "_internal_", " (")']
    return chk.finish(rule='families (composite, order books, structured, mixed discount rates) x permutations of the asset list x 5 adversarial renamings of assets, nodes and the wrapper; '
                           'symmetry of the specification checked by two TLC enumerations per configuration', exhaustive=False)
