"""C01 nodal balance: reported dispatch nets to zero at every node and step -- monolithic, split, structured (external nodes),
coarse-frequency assets, io.optimize."""
from harness import realise as R
from harness.check import CheckRun

from . import common, fam


def is_c01(v):
    return v.startswith('balance') or v.startswith('reported_dispatch') or v.startswith('flow_at_unattached')


def run(tier, seed):
    chk = CheckRun('C01', tier, seed)
    th = tier == 'thorough'
    # (a) spec -> code: every balanced lattice schedule accepted, every off-by-one-unit imbalance rejected
    for tag, cfgs in [('composite', fam.fam_composite()[::4 if not th else 1]), ('transport', fam.fam_transport()[::3 if not th else 1]),
                      ('multi', fam.fam_multi()[::3 if not th else 1])]:
        common.spec_to_code(chk, cfgs, lambda c: R.Real(c), relax=['balance'], neg_cfgs=cfgs, tag=tag, check_optimum=False)
        # (b) code -> spec: each step of the reported dispatch is a balanced joint move of the reference model
        common.code_to_spec(chk, cfgs, lambda c: R.Real(c), tag=tag, chk_fields=())
    # split route of the reference families
    from .c14 import SplitReal
    scfgs = fam.fam_split(thorough=th)
    common.code_to_spec(chk, scfgs, lambda c: SplitReal(c), tag='split', split='cfg', chk_fields=())
    # larger seeded portfolios: every step of the reported dispatch must be a balanced joint move of the reference model
    common.code_to_spec(chk, fam.fam_random(seed, n=12 if not th else 60, T=12 if not th else 24), lambda c: R.Real(c), tag='random', chk_fields=(), solvers=('SCIPY',))
    # (c) all asset types, all routes: light abstraction
    common.zoo_portfolio_traces(chk, seeds=range(seed, seed + (2 if not th else 8)), clause_filter=is_c01, clauses=('balance',), routes=('mono', 'split', 'io', 'robust', 'inner'))
    if th:
        common.harvested_test_suite(chk, ('balance',), is_c01)
    chk.assumptions += ['light abstraction (flows and attachment only) for asset types outside the reference model']
    return chk.finish(rule='reference-model families (composite, transport, multi-commodity, split) with balance near-misses; zoo of 16 portfolios over all '
                           'asset types x routes (mono, split, io.optimize) x seeds; non-trivial = accepted trace / configuration with behaviours',
                      exhaustive=False)
