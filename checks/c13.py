"""C13 coarse asset frequency and periodicity = the fine problem plus exactly those equalities."""
from harness import realise as R
from harness.check import CheckRun

from . import common, fam

RELAX = ['group_rate', 'period_rate', 'cap', 'rate', 'level_hi', 'level_lo', 'end_level']


def run(tier, seed):
    chk = CheckRun('C13', tier, seed)
    th = tier == 'thorough'
    for tag, cfgs in [('coarse', fam.fam_coarse(thorough=True)), ('coarse_dst', fam.fam_coarse_dst()), ('coarse_discount', fam.fam_coarse_discount()), ('periodic', fam.fam_periodic(thorough=True))]:
        def make_real(cfg):
            return R.Real(cfg)

        def onsel(sel, cfg):
            sel['variant'] = cfg.get('variant')
            sel['option'] = cfg.get('option')
        # constant-rate / repeating schedules of the constrained FINE model are accepted with equal value, every other schedule
        # (near-miss group_rate / period_rate) is not representable, and the optimum equals the fine optimum with the equalities
        pos = common.spec_to_code(chk, cfgs, make_real, relax=RELAX, neg_cfgs=cfgs if th else cfgs[seed % 2::2], tag=tag, sel_hook=onsel)
        common.code_to_spec(chk, cfgs, make_real, tag=tag, chk_fields=('level', 'chdis'), sel_hook=onsel)
    chk.assumptions += ['limits constant inside a coarse interval / across merged periodic steps (the documentation does not settle time-varying limits there)',
                        'coarse windows start on a coarse-interval boundary inside the horizon; wacc = 0 for coarse assets']
    return chk.finish(rule='every asset kind accepting freq / periodicity (contract with one and two variables, transport, storage with one and two variables, '
                           'multi-commodity) x {coarse 2h on hourly grid (windows), coarse 2d on daily CET grids across the daylight-saving switches (steps of 23 / 24 / 25 h), periodicity 2h, periodicity 2h with duration 4h}', exhaustive=True)
