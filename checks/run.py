"""Entry point of every registered check:   /venv/bin/python -m checks.run C05 --tier quick|thorough

exit 0: the property held on everything explored (KNOWN-FINDING lines may be printed)
exit 1: `VIOLATION property=<id> replay=<path>` lines were printed
exit 2: the machinery itself failed (never to be read as a verdict on the property)
"""
import argparse
import importlib
import os
import sys

os.environ.setdefault('PYTHONHASHSEED', '0')
sys.path.insert(0, os.path.dirname(os.path.dirname(os.path.abspath(__file__))))

from harness.check import main_wrapper  # noqa: E402


def main():
    ap = argparse.ArgumentParser()
    ap.add_argument('prop')
    ap.add_argument('--tier', default=os.environ.get('VERIF_TIER', 'quick'), choices=['quick', 'thorough'])
    ap.add_argument('--seed', type=int, default=int(os.environ.get('VERIF_SEED', '0')))
    ap.add_argument('--replay', default=None)
    args = ap.parse_args()
    mod = importlib.import_module('checks.' + args.prop.lower())
    if args.replay:
        sys.exit(main_wrapper(lambda t, s: mod.replay(args.replay))(args.tier, args.seed))
    sys.exit(main_wrapper(mod.run)(args.tier, args.seed))


if __name__ == '__main__':
    main()
