"""C19 time grid and interval data: TLC enumerates EAOTime (all start/end/frequency/zone/main-unit cases around a real DST
switch, all restriction windows, coarse frequencies, interval lists), checks the C19 clauses as invariants on the
specification and emits the expected result of every call; the same call is made on the real Timegrid and compared exactly."""
import collections
import itertools
import shutil
from fractions import Fraction

import numpy as np
import pandas as pd

from harness import tlc
from harness.check import CheckRun
from harness.realise import eao, quiet

INVS = ['Increasing', 'StartsAtStart', 'BeforeEnd', 'StepLenTrue', 'CumLenTrue', 'RestrictDef', 'CoarsePartition', 'AssignDef', 'PricesDef']
MTU = {'h': (1, 1), 'd': (24, 1), 'min': (1, 60), '15min': (1, 4)}
ZONES = [dict(sw=-1, d=0), dict(sw=26, d=1), dict(sw=27, d=-1)]
UNDEF = -999


def interval_lists(tier):
    out = []
    pts = [0, 12, 24, 27, 36, 60]
    # single intervals, with and without end
    for s in (0, 12, 30):
        out.append([dict(s=s, e=-1, v=5)])
        out.append([dict(s=s, e=s + 24, v=5)])
    # two / three intervals: disjoint, touching, overlapping, implicit ends
    pairs = [((0, 12), (12, 24)), ((0, 12), (24, 36)), ((0, 24), (12, 36)), ((6, 30), (30, 60)), ((0, 36), (36, 72)), ((0, 13), (12, 24))]
    for (a, b) in pairs:
        out.append([dict(s=a[0], e=a[1], v=1), dict(s=b[0], e=b[1], v=2)])
    out.append([dict(s=0, e=-1, v=1), dict(s=12, e=-1, v=2)])
    out.append([dict(s=6, e=-1, v=1), dict(s=24, e=-1, v=2), dict(s=30, e=-1, v=3)])
    out.append([dict(s=0, e=12, v=1), dict(s=12, e=24, v=2), dict(s=24, e=48, v=3)])
    out.append([dict(s=0, e=12, v=1), dict(s=30, e=36, v=2), dict(s=10, e=20, v=3)])
    if tier == 'thorough':
        for a, b, c_ in itertools.combinations(pts, 3):
            out.append([dict(s=a, e=b, v=1), dict(s=b, e=c_, v=2)])
            out.append([dict(s=a, e=c_, v=1), dict(s=b, e=c_ + 6, v=2)])
            out.append([dict(s=a, e=-1, v=1), dict(s=b, e=-1, v=2), dict(s=c_, e=-1, v=3)])
    return out


def constants(tier):
    th = tier == 'thorough'
    freqs = [dict(k=1, cal=False), dict(k=2, cal=False), dict(k=3, cal=False), dict(k=6, cal=False), dict(k=12, cal=False), dict(k=1, cal=True)]
    return dict(Zones=ZONES, Freqs=freqs,
                Starts=[0, 6, 12, 22, 24, 27, 30] if th else [0, 12, 22, 27],
                Ends=[8, 24, 30, 36, 48, 54, 60, 72] if th else [24, 30, 48, 60, 72],
                Mtus=[list(MTU[m]) for m in (('h', 'd', 'min') if th else ('h', 'd'))],
                WinStarts=[-6, 0, 6, 12, 24, 30, 48] if th else [0, 6, 24, 30],
                WinEnds=[12, 24, 36, 48, 72, 96] if th else [12, 36, 48, 72],
                CoarseFreqs=[dict(k=1, cal=True), dict(k=6, cal=False), dict(k=4, cal=False)] if th else [dict(k=1, cal=True), dict(k=6, cal=False)],
                IntervalLists=interval_lists(tier),
                # timestamped price points (local hour, value): on / off the grid, before / after it, around the switch, unsorted, a single point
                PriceLists=[[dict(t=0, v=2), dict(t=24, v=8)], [dict(t=30, v=7), dict(t=6, v=1), dict(t=54, v=4)], [dict(t=28, v=3)],
                            [dict(t=12, v=5), dict(t=36, v=5)], [dict(t=-12, v=0), dict(t=100, v=56)], [dict(t=25, v=0), dict(t=28, v=9)]]
                + ([[dict(t=22, v=1), dict(t=23, v=4), dict(t=29, v=-2), dict(t=47, v=6)], [dict(t=13, v=-3), dict(t=31, v=3)]] if th else []))


def anchor(z):
    if z['d'] == 0:
        return pd.Timestamp('2021-03-27'), None
    if z['d'] == 1:
        return pd.Timestamp('2021-03-27'), 'CET'
    return pd.Timestamp('2021-10-30'), 'CET'


def freq_str(f):
    return 'd' if f['cal'] else ('%dh' % f['k'] if f['k'] > 1 else 'h')


def mtu_name(m):
    return next(k for k, v in MTU.items() if list(v) == list(m))


class RealGrid:
    cache = {}

    def __init__(self, c, tz_override=None):
        self.a, self.tz = anchor(c['z'])
        if tz_override:
            self.tz = tz_override
        self.a0 = self.a.tz_localize(self.tz) if self.tz else self.a
        self.mtu = mtu_name(c['mtu'])
        self.g = eao.assets.Timegrid(self.loc(c['sl']), self.loc(c['el']), freq=freq_str(c['f']), main_time_unit=self.mtu, timezone=self.tz)

    def loc(self, l):
        return self.a + pd.Timedelta(hours=l)

    def ticks(self, ts):
        return int(round((ts - self.a0) / pd.Timedelta(hours=1)))


def eq_frac(x, ticks, mtu):
    want = Fraction(ticks * mtu[1], mtu[0])
    return abs(float(x) - float(want)) <= 1e-9 * max(1.0, abs(float(want)))


def compare(rec, tz_override=None):
    """'' or a description of the disagreement between the real Timegrid and the specification"""
    c, op, out = rec['c'], rec['op'], rec['out']
    if tz_override is None and c['z']['d'] == 0 and op['kind'] in ('assign', 'prices'):
        # the zone without switch is realised naive AND as a zone west of UTC without daylight saving (interval data, price points)
        why = compare(rec, tz_override='America/Bogota')
        if why:
            return why + ' [zone America/Bogota]'
    try:
        rg = RealGrid(c, tz_override)
    except Exception as e:
        return 'constructor raised %s: %s' % (type(e).__name__, str(e)[:80])
    g = rg.g
    mtu = c['mtu']
    if op['kind'] == 'new':
        pts = [rg.ticks(t) for t in g.timepoints]
        if g.T != out['T'] or pts != list(out['pts']):
            return 'points differ: code T=%d %s spec T=%d %s' % (g.T, pts[:6], out['T'], list(out['pts'])[:6])
        if not all(eq_frac(x, t, mtu) for x, t in zip(g.dt, out['dt'])):
            return 'dt differs: code %s spec(ticks) %s' % (list(g.dt)[:6], out['dt'][:6])
        if not all(eq_frac(x, t, mtu) for x, t in zip(g.Dt, out['Dt'])):
            return 'Dt differs'
        if list(g.I) != list(range(g.T)):
            return 'I is not 0..T-1'
        # already-gridded price arrays pass through unchanged
        arr = np.arange(g.T, dtype=float) * 1.5 + 2
        pg = g.prices_to_grid({'p': arr.copy()})
        if list(pg.index) != list(g.timepoints) or not np.array_equal(pg['p'].values, arr):
            return 'gridded price array does not pass through unchanged'
        return ''
    if op['kind'] == 'restrict':
        try:
            g.set_restricted_grid(rg.loc(op['ws']), rg.loc(op['we']))
        except Exception as e:
            return 'set_restricted_grid raised %s: %s' % (type(e).__name__, str(e)[:80])
        r = g.restricted
        I = [int(i) + 1 for i in r.I]
        if I != sorted(out['I']):
            return 'restricted index differs: code %s spec %s' % (I, sorted(out['I']))
        ri = np.asarray(r.I, int)
        if r.T != len(I) or not np.array_equal(r.dt, g.dt[ri]) or not np.array_equal(r.Dt, g.Dt[ri]) or list(r.timepoints) != list(g.timepoints[ri]):
            return 'restricted attributes inconsistent with the index'
        return ''
    if op['kind'] == 'coarse':
        want = [sorted(s) for s in out['groups']]
        try:
            g.set_restricted_grid(rg.loc(op['ws']), rg.loc(op['we']), freq=freq_str(op['cf']))
        except AssertionError as e:
            if 'less/equal granular' in str(e):
                return 'SKIP coarse frequency finer than the grid'
            return 'coarse sub-grid raised AssertionError: %s' % str(e)[:80]
        except Exception as e:
            return 'coarse sub-grid raised %s: %s (specified groups: %s)' % (type(e).__name__, str(e)[:60], want)
        r = g.restricted
        if not hasattr(r, 'I_minor_in_major'):
            # same frequency: plain restriction; groups are singletons
            got = [[int(i) + 1] for i in r.I]
        else:
            got = [sorted(int(i) + 1 for i in grp) for grp in r.I_minor_in_major]
        if got != want:
            return 'coarse groups differ: code %s spec %s' % (got, want)
        if hasattr(r, 'I_minor_in_major') and not all(eq_frac(x, t, mtu) for x, t in zip(r.dt, out['len'])):
            return 'coarse group lengths differ'
        return ''
    if op['kind'] == 'assign':
        iv = op['iv']
        d = {'start': [rg.loc(k['s']).to_pydatetime() for k in iv], 'values': [float(k['v']) for k in iv]}
        if iv[0]['e'] != -1:
            d['end'] = [rg.loc(k['e']).to_pydatetime() for k in iv]
        try:
            vals = g.values_to_grid(d)
        except ValueError as e:
            if 'Overlapping' in str(e):
                return '' if out['overlap'] else 'overlap error raised but every grid point lies in at most one interval'
            return 'values_to_grid raised ValueError: %s' % str(e)[:80]
        except Exception as e:
            return 'values_to_grid raised %s: %s' % (type(e).__name__, str(e)[:80])
        if out['overlap']:
            return 'overlapping intervals accepted (a grid point lies in two intervals)'
        got = [UNDEF if np.isnan(v) else int(v) for v in vals]
        if got != list(out['vals']):
            return 'assigned values differ: code %s spec %s' % (got, list(out['vals']))
        return ''
    if op['kind'] == 'prices':
        # timestamped price points (in the order given): interpolated in absolute time, constant outside
        def ts(l):
            t = rg.loc(l)
            return t.tz_localize(rg.tz) if rg.tz else t
        pts = {ts(k['t']): float(k['v']) for k in op['P']}
        try:
            pg = g.prices_to_grid({'p': pts})
        except Exception as e:
            return 'prices_to_grid raised %s: %s' % (type(e).__name__, str(e)[:80])
        if list(pg.index) != list(g.timepoints):
            return 'price table is not indexed by the grid points'
        want = [Fraction(int(v[0]), int(v[1])) for v in out['vals']]
        got = pg['p'].values
        for i, (x, w) in enumerate(zip(got, want)):
            if not abs(float(x) - float(w)) <= 1e-9 * max(1.0, abs(float(w))):
                return 'interpolated price differs at grid point %d: code %r spec %s' % (i + 1, float(x), w)
        return ''
    return 'unknown op'


def run(tier, seed):
    chk = CheckRun('C19', tier, seed)
    K = constants(tier)
    wd = tlc.scratch()
    try:
        defs = {'MC' + k: tlc.tla(set_of(v)) for k, v in K.items()}
        lines = ['SPECIFICATION Spec', 'CONSTRAINT Emit', 'CHECK_DEADLOCK FALSE'] + ['CONSTANT %s <- MC%s' % (k, k) for k in K] + ['INVARIANT ' + i for i in INVS]
        tlc.write_mc(wd, 'MCtime', 'EAOTime', defs, lines)
        r = tlc.run_tlc(wd, 'MCtime', tags=('CASE',), timeout=3000)
        if r['unparsed']:
            r = tlc.run_tlc(wd, 'MCtime', tags=('CASE',), workers=1, timeout=3000)
    finally:
        shutil.rmtree(wd, ignore_errors=True)
    chk.add_tlc(dict(generated=r['generated'], distinct=r['distinct']))
    if r['violated']:
        chk.violation(dict(check='spec_invariant', invariant=r['violated']), 'TLC: invariant %s violated on EAOTime itself' % r['violated'], r['out'][-2500:])
        return chk.finish(rule='-')
    kinds = collections.Counter()
    with quiet():
        for tag, rec in r['records']:
            kind = rec['op']['kind']
            chk.cnt['eval_' + kind] += 1
            why = compare(rec)
            if why.startswith('SKIP'):
                chk.cnt['skipped_' + kind] += 1
                continue
            if why:
                c = rec['c']
                sel = dict(check='timegrid_' + kind, zone=c['z']['d'], freq=freq_str(c['f']), mtu=mtu_name(c['mtu']))
                if kind == 'coarse':
                    sel['coarse_freq'] = freq_str(rec['op']['cf'])
                    sel['how'] = why.split(':')[0].split(' (')[0][:60]
                elif kind == 'assign':
                    sel['how'] = why.split(':')[0][:60]
                    sel['implicit_end'] = rec['op']['iv'][0]['e'] == -1
                    sel['n_intervals'] = len(rec['op']['iv'])
                chk.violation(sel, why, rec)
            else:
                kinds[kind] += 1
                chk.nontrivial((kind, str(rec['c']), str(rec['op'])))
    chk.traces = 0
    chk.cnt.update({'agree_' + k: v for k, v in kinds.items()})
    chk.sample(dict(kind='specified result of a Timegrid call, compared with the real object', record=r['records'][0][1]))
    chk.sample(dict(kind='specified result of a Timegrid call, compared with the real object', record=r['records'][len(r['records']) // 2][1]))
    chk.assumptions += ['pandas calendar arithmetic is trusted for turning ticks into timestamps; the specification says what step lengths must be',
                        'local hours that do not exist / are ambiguous are not used as inputs', 'CET around the switches of 2021-03-28 and 2021-10-31']
    return chk.finish(rule='all (zone, frequency, start, end, main time unit) cases on an hourly lattice around a real DST switch; for each all restriction windows, '
                           'coarse frequencies x windows, interval lists, timestamped price lists; every call compared exactly; non-trivial = distinct call that agrees', exhaustive=True,
                      extra=dict(traces_validated_against_impl=0, spec_calls_replayed_into_impl=len(r['records'])))


def set_of(v):
    """constants are sets of records / sequences"""
    out = []
    for x in v:
        out.append(tlc.Str(tlc.tla(x)))
    return set(out)
