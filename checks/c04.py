"""C04 value accounting: reported value = sum of the DCF table; per asset DCF total = -c_a.x_a (and = the reference model's
own cash flow of that asset) -- monolithic, split, periodic, coarse, scaled, structured, order books."""
from harness import realise as R
from harness.check import CheckRun

from . import common, fam


def is_c04(v):
    return v.startswith('value_is_not') or v.startswith('dcf_')


def run(tier, seed):
    chk = CheckRun('C04', tier, seed)
    th = tier == 'thorough'
    k = 1 if th else 3
    fams = [('discount', fam.fam_discount()), ('orders', fam.fam_orders()[::k]), ('orders_dt', fam.fam_orders_dt()),
            ('storage', fam.fam_storage()[::k]), ('composite', fam.fam_composite()[::4 if not th else 1])]
    for tag, cfgs in fams:
        # replay: per-asset -c_a.x_a equals the model's per-asset cash flow on EVERY lattice behaviour, not only the optimum
        common.spec_to_code(chk, cfgs, lambda c: R.Real(c), tag=tag, check_optimum=False)
        common.code_to_spec(chk, cfgs, lambda c: R.Real(c), tag=tag, chk_fields=())
    from .c14 import SplitReal
    common.code_to_spec(chk, fam.fam_split(thorough=th) + fam.fam_split_discount(), lambda c: SplitReal(c), tag='split', split='cfg', chk_fields=())
    common.zoo_portfolio_traces(chk, seeds=range(seed, seed + (2 if not th else 8)), clause_filter=is_c04, clauses=('accounting',), routes=('mono', 'split', 'io', 'robust'))
    if th:
        common.harvested_test_suite(chk, ('accounting',), is_c04)
    chk.assumptions += ['the STEP on which a cash flow is booked is not part of the statement; totals per asset are compared']
    return chk.finish(rule='reference-model families (discounting, order books, storages with holding costs, composite, split) replayed and trace-validated '
                           '(DCF totals tied to the model); zoo of 16 portfolios over all asset types x routes x seeds', exhaustive=False)
