"""C06 Plant/CHP unit commitment: on/off patterns = exactly those of the runtime/downtime automaton; output zero when
off, within capacity when on, ramp incl. first step; start flags / costs / fuel at off->on transitions; heat share; fuel."""
import collections
import copy
import itertools
import json
import os
import shutil

import numpy as np
import pandas as pd

from harness import record as REC
from harness import tlc
from harness.check import CheckRun
from harness.realise import CALENDARS, eao, quiet
from harness.replay import Problem

RELAX = ['min_down', 'min_run', 'start_flag_missing', 'off_output', 'cap', 'ramp', 'heat_share']
INVS = ['MinRunInv', 'MinRun0Inv', 'MinDownInv', 'MinDown0Inv', 'StartInv', 'OffZeroInv']


def uc_cfg(cid, T, d=1, lo=1, hi=2, price=None, ramp=-1, minrun=0, mindown=0, run0=0, off0=0, last0=0, startcost=0, runcost=0,
           heat=False, conv=(1, 1), share=(1, 1), fuel=False, feff=(1, 1), fuelon=0, fuelstart=0, q=1, mlthr=0, mlcost=0):
    price = price or [-3, 1, -2, 2, -3, 1, -1, -2][:T]
    return dict(id=cid, T=T, d=d, lo=[lo] * T if not isinstance(lo, list) else lo, hi=[hi] * T if not isinstance(hi, list) else hi,
                price=price, ramp=ramp, minrun=minrun, mindown=mindown, run0=run0, off0=off0, last0=last0,
                startcost=[startcost] * T, runcost=runcost, heat=heat, conv=list(conv), share=list(share), fuel=fuel,
                feff=list(feff), fuelon=fuelon, fuelstart=fuelstart, q=q, mlthr=mlthr, mlcost=mlcost)


def inits(mindown, lo, hi):
    """consistent declared initial states: (run0, off0, last0)"""
    out = [(1, 0, lo), (2, 0, hi), (3, 0, lo), (0, 1, 0), (0, 2, 0), (0, 4, 0)]
    if mindown <= 1:
        out.append((0, 0, 0))
    return out


def fam_patterns(T, d=1, thorough=False):
    """on/off part: all min runtime x min downtime x initial state; one output level (lo = hi) keeps outputs trivial"""
    out = []
    cid = 0
    rng = range(0, 4) if not thorough else range(0, 5)
    for mr, md in itertools.product(rng, rng):
        # required durations may be fractions of a step (rounded up, which is physically right); ELAPSED durations are
        # kept multiples of the step: the implementation documents (and warns) that it rounds them up as well
        for (r0, o0, l0) in inits(md, 2, 2):     # the constructor requires a declared state when min_downtime > 1 (main time units)
            cid += 1
            out.append(uc_cfg(cid, T, d=d, lo=2, hi=2, minrun=mr, mindown=md, run0=r0 * d, off0=o0 * d, last0=l0, startcost=1 if cid % 2 else 0))
    return out


def fam_patterns_long(T, d=1):
    """required durations reaching to the end of the horizon and beyond it (short horizons, rolling re-optimisation): a plant declared running
    / off whose remaining minimum runtime / downtime covers all of the horizon, exactly the horizon, or all but the last step"""
    out = []
    cid = 0
    for (mr, md, r0, o0) in [(T + 1, 0, 1, 0), (T + 2, 0, 2, 0), (T, 0, 1, 0), (T + 2, 0, 1, 0), (T + 1, 0, 2, 0), (T + 1, 0, 0, 2), (T, 2, 0, 1),
                             (0, T + 1, 0, 1), (0, T + 2, 0, 2), (0, T, 0, 1), (2, T + 1, 0, 2), (0, T + 1, 2, 0), (2, T, 1, 0), (T, T, 0, T)]:
        cid += 1
        out.append(uc_cfg(cid, T, d=d, lo=2, hi=2, minrun=mr * d, mindown=md * d, run0=r0 * d, off0=o0 * d, last0=2 if r0 else 0, startcost=cid % 2))
    return out


def fam_outputs(T, thorough=False, d=1):
    """outputs: capacity, ramp (incl. first step vs last dispatch), start/running costs"""
    out = []
    cid = 0
    for (lo, hi), ramp, (mr, md), init, sc, rc in itertools.product([(1, 2), (0, 2), (1, 3)], (-1, 1), [(0, 0), (2, 0), (0, 2), (2, 2)],
                                                                    [(0, 2, 0), (2, 0, 'hi'), (2, 0, 'lo')], (0, 2), (0, 1)):
        r0, o0, l0 = init
        if l0 == 'hi':
            l0 = hi
        elif l0 == 'lo':
            l0 = max(lo, 1)
        if (sc, rc) == (2, 1) and not thorough:
            continue
        cid += 1
        out.append(uc_cfg(cid, T, d=d, lo=lo, hi=hi, ramp=ramp, minrun=mr * d, mindown=md * d, run0=r0 * d, off0=o0 * d, last0=l0, startcost=sc, runcost=rc))
    return out


def fam_min_load(T):
    """CHP with minimum-load costs: threshold between / at / above the capacity limits"""
    out = []
    cid = 0
    for (lo, hi), thr, mlc, sc, price in itertools.product([(1, 3), (0, 2)], (1, 2, 3), (1, 4), (0, 1), ([-3, 1, -2, 2], [-1, -1, -1, -1])):
        cid += 1
        out.append(uc_cfg(cid, T, lo=lo, hi=hi, price=price[:T], startcost=sc, heat=True, conv=(1, 1), share=(1, 1), mlthr=thr, mlcost=mlc))
    return out


def fam_fuel_heat(T, thorough=False):
    out = []
    cid = 0
    # heat with a capacity range wide enough for the ramp limit to bind between two on-steps (through power, through heat, through both)
    for conv, init, ramp in itertools.product([(1, 1), (1, 2)], [(0, 2, 0), (2, 0, 2)], (1, 2)):
        cid += 1
        out.append(uc_cfg(cid, T, lo=1, hi=4, price=[-3, 2, -2, 1][:T], run0=init[0], off0=init[1], last0=init[2], startcost=1, heat=True, conv=conv, share=(1, 1), ramp=ramp))
    for heat, fuel, (mr, md), init in itertools.product((False, True), (False, True), [(0, 0), (2, 2)], [(0, 2, 0), (2, 0, 2)]):
        if not heat and not fuel:
            continue
        for conv, share, feff in ([((1, 1), (1, 1), (1, 1)), ((1, 2), (1, 2), (1, 2)), ((1, 1), (2, 1), (1, 1))] if heat else [((1, 1), (1, 1), (1, 2))]):
            cid += 1
            out.append(uc_cfg(cid, T, lo=1, hi=2, minrun=mr, mindown=md, run0=init[0], off0=init[1], last0=init[2], startcost=1,
                              heat=heat, conv=conv, share=share, fuel=fuel, feff=feff, fuelon=1 if fuel else 0, fuelstart=2 if fuel else 0,
                              ramp=1 if cid % 2 else -1))
            if fuel and (mr, md) == (0, 0):
                # start fuel as the ONLY reason for start variables (no start costs, no minimum times), and consumption when on without start fuel
                cid += 1
                out.append(uc_cfg(cid, T, lo=1, hi=2, run0=init[0], off0=init[1], last0=init[2], startcost=0, heat=heat, conv=conv, share=share, fuel=True, feff=feff,
                                  fuelon=0, fuelstart=2))
                cid += 1
                out.append(uc_cfg(cid, T, lo=1, hi=2, run0=init[0], off0=init[1], last0=init[2], startcost=0, heat=heat, conv=conv, share=share, fuel=True, feff=feff,
                                  fuelon=1, fuelstart=0))
    return out


# ------------------------------------------------------------------------------------------ realisation
class UCReal:
    def __init__(self, c, mtu='h'):
        self.c = c
        cal = 'h' if c['d'] == 1 else 'h2'
        start, tick, freq, tz = CALENDARS[cal]
        self.start = pd.Timestamp(start)
        self.tick = pd.Timedelta(tick)
        self.r = self.tick / pd.Timedelta(1, mtu)
        self.tg = eao.assets.Timegrid(self.start, self.start + c['T'] * c['d'] * self.tick, freq=freq, main_time_unit=mtu)
        assert self.tg.T == c['T']
        N = eao.assets.Node
        nodes = [N('power')]
        if c['heat']:
            nodes.append(N('heat'))
        if c['fuel']:
            nodes.append(N('fuel'))
        r = self.r
        kw = dict(name='PL', nodes=nodes, min_cap='lo', max_cap='hi', price='p', ramp=(c['ramp'] / r if c['ramp'] >= 0 else None),
                  start_costs=float(c['startcost'][0]), running_costs=c['runcost'] / r, min_runtime=c['minrun'] * r,
                  time_already_running=c['run0'] * r, min_downtime=c['mindown'] * r, time_already_off=c['off0'] * r,
                  last_dispatch=c['last0'] / r)
        if c['fuel']:
            kw.update(start_fuel=float(c['fuelstart']), fuel_efficiency=c['feff'][0] / c['feff'][1], consumption_if_on=c['fuelon'] / r)
        if c['heat']:
            kw.update(conversion_factor_power_heat=c['conv'][0] / c['conv'][1], max_share_heat=c['share'][0] / c['share'][1])
            if c.get('mlcost', 0) > 0:
                self.asset = eao.assets.CHPAsset_with_min_load_costs(min_load_threshhold=c['mlthr'] / r, min_load_costs=c['mlcost'] / r, **kw)
            else:
                self.asset = eao.assets.CHPAsset(**kw)
        else:
            self.asset = eao.assets.Plant(**kw)
        self.prices = {'p': np.asarray(c['price'], float), 'lo': np.asarray(c['lo'], float) / r, 'hi': np.asarray(c['hi'], float) / r}
        with quiet():
            self.op = self.asset.setup_optim_problem(self.prices, self.tg)
        self.prob = Problem(self.op)
        m = self.op.mapping
        self.var = {}
        self.fuelrows = collections.defaultdict(list)
        df = m['disp_factor'].values if 'disp_factor' in m.columns else np.ones(len(m))
        for idx, vn, node, ts, ty, f in zip(m.index.values, m['var_name'].values, m['node'].values, m['time_step'].values, m['type'].values, df):
            f = 1.0 if (f is None or (isinstance(f, float) and np.isnan(f))) else float(f)
            if node == 'fuel':
                self.fuelrows[int(ts)].append((int(idx), f))
                continue
            key = (vn, node if isinstance(node, str) else None, int(ts))
            self.var.setdefault(key, int(idx))

    def pins(self, steps, what=('on', 'start', 'p', 'h')):
        pins = {}
        for t, st in enumerate(steps):
            if 'p' in what and ('disp', 'power', t) in self.var:
                pins[self.var[('disp', 'power', t)]] = float(st['p'])
            if 'h' in what and self.c['heat']:
                pins[self.var[('disp', 'heat', t)]] = float(st['h'])
            if 'on' in what and ('bool_on', None, t) in self.var:
                pins[self.var[('bool_on', None, t)]] = 1.0 if st['on'] else 0.0
            if 'start' in what and ('bool_start', None, t) in self.var:
                pins[self.var[('bool_start', None, t)]] = 1.0 if st['start'] else 0.0
        return pins

    def has_on(self):
        return ('bool_on', None, 0) in self.var

    def fuel_flow(self, x, t):
        return sum(x[i] * f for i, f in self.fuelrows.get(t, []))


def enumerate_uc(cfgs, relax=(), name='MCuc'):
    wd = tlc.scratch()
    try:
        defs = {'MCConfigs': '{' + ',\n   '.join(tlc.tla(c) for c in cfgs) + '}', 'MCRelax': tlc.tla(set(relax))}
        lines = ['SPECIFICATION Spec', 'CONSTANT Configs <- MCConfigs', 'CONSTANT Relax <- MCRelax', 'CONSTRAINT Emit', 'CHECK_DEADLOCK FALSE']
        lines += ['INVARIANT ' + i for i in INVS]
        tlc.write_mc(wd, name, 'EAOUnitCommit', defs, lines)
        r = tlc.run_tlc(wd, name)
        if r['unparsed']:
            r = tlc.run_tlc(wd, name, workers=1)
        behs = collections.defaultdict(list)
        for tag, rec in r['records']:
            behs[rec['cid']].append(rec)
        return behs, dict(generated=r['generated'], distinct=r['distinct'], violated=r['violated'], tail=r['out'][-2000:] if r['violated'] else '')
    finally:
        shutil.rmtree(wd, ignore_errors=True)


def feat(c):
    return dict(T=c['T'], d=c['d'], minrun=c['minrun'], mindown=c['mindown'], run0=c['run0'], off0=c['off0'], ramp=c['ramp'] >= 0,
                heat=c['heat'], fuel=c['fuel'], last0=c['last0'], startcost=c['startcost'][0] > 0)


def run(tier, seed):
    chk = CheckRun('C06', tier, seed)
    th = tier == 'thorough'
    T = 6 if th else 5
    fams = [('patterns', fam_patterns(T, thorough=th), True), ('patterns_frac', fam_patterns(4 if not th else 5, d=2), True),
            ('patterns_long', fam_patterns_long(4) + [dict(c, id=c['id'] + 100) for c in fam_patterns_long(3, d=2)], True),
            ('outputs', fam_outputs(4, thorough=th), False), ('outputs_step2', [c for k, c in enumerate(fam_outputs(3, thorough=th, d=2)) if th or k % 2 == seed % 2], False), ('fuel_heat', fam_fuel_heat(3 if not th else 4, thorough=th), False),
            ('min_load', fam_min_load(3 if not th else 4), False)]
    if th:
        fams.append(('patterns_T8', [c for k, c in enumerate(fam_patterns(8)) if k % 5 == seed % 5], True))
    traces, tmeta = [], []
    for tag, cfgs, pattern_family in fams:
        behs, st = enumerate_uc(cfgs)
        chk.add_tlc(st)
        if st['violated']:
            chk.violation(dict(check='spec_invariant', invariant=st['violated'], family=tag), 'TLC: invariant violated on the specification', st['tail'])
            continue
        negs, st2 = enumerate_uc(cfgs if (th or not pattern_family) else cfgs[seed % 3::3], relax=RELAX, name='MCucneg')
        chk.add_tlc(st2)
        for c in cfgs:
            sel = dict(family=tag)
            sel.update(feat(c))
            try:
                real = UCReal(c)
            except Exception as e:
                chk.violation(dict(sel, check='setup_raises', error=type(e).__name__), 'set-up raised %s: %s' % (type(e).__name__, e), dict(cfg=c))
                continue
            pos = behs.get(c['id'], [])
            cd = c['conv'][1]
            # ---- every strict behaviour is feasible, equally priced, draws the specified fuel
            prefix_keys = set()
            for b in pos:
                chk.cnt['eval_pos'] += 1
                pins = real.pins(b['steps'])
                for n in range(len(b['steps']) + 1):
                    prefix_keys.add((n, tuple(sorted(real.pins(b['steps'][:n]).items()))))
                stt, val, x = real.prob.solve(pins)
                if stt != 'optimal':
                    chk.violation(dict(sel, check='replay_positive'), 'automaton behaviour infeasible in the implementation', dict(cfg=c, behaviour=b))
                    continue
                if abs(val - b['val'] / cd) > 1e-7 * max(1, abs(val)):
                    chk.violation(dict(sel, check='replay_value'), 'value differs: implementation %.9g specification %.9g' % (val, b['val'] / cd), dict(cfg=c, behaviour=b))
                if c['fuel']:
                    for t, s_ in enumerate(b['steps']):
                        want = -s_['fuel'] / (c['feff'][0] * cd)
                        if abs(real.fuel_flow(x, t) - want) > 1e-7:
                            chk.violation(dict(sel, check='replay_fuel'), 'fuel drawn at step %d: implementation %.9g specification %.9g' % (t + 1, real.fuel_flow(x, t), want),
                                          dict(cfg=c, behaviour=b))
                            break
            # ---- near-miss prefixes must be infeasible
            for b in [b for b in negs.get(c['id'], []) if b['fault']]:
                pins = real.pins(b['steps'])
                k = (len(b['steps']), tuple(sorted(pins.items())))
                chk.cnt['fault_' + b['fault']] += 1
                if k in prefix_keys:
                    chk.cnt['neg_skipped'] += 1
                    continue
                chk.cnt['eval_neg'] += 1
                stt, val, x = real.prob.solve(pins)
                if stt == 'optimal':
                    chk.violation(dict(sel, check='replay_negative', fault=b['fault']), 'near-miss (%s at step %d) is feasible in the implementation' % (b['fault'], b['at']),
                                  dict(cfg=c, behaviour=b))
            # ---- all 2^T on/off patterns: feasible <=> reachable in the automaton
            if pattern_family and real.has_on():
                reach = {tuple(bool(s_['on']) for s_ in b['steps']) for b in pos}
                for pat in itertools.product((False, True), repeat=c['T']):
                    chk.cnt['eval_patterns'] += 1
                    pins = real.pins([dict(on=o) for o in pat], what=('on',))
                    stt, val, x = real.prob.solve(pins)
                    feas = stt == 'optimal'
                    if feas != (pat in reach):
                        chk.violation(dict(sel, check='pattern_feasible_but_unreachable' if feas else 'pattern_reachable_but_infeasible'),
                                      'pattern %s: implementation %s, automaton %s' % (''.join('1' if o else '0' for o in pat), 'feasible' if feas else 'infeasible',
                                                                                      'reachable' if pat in reach else 'unreachable'), dict(cfg=c, pattern=pat))
                chk.nontrivial(('patterns', tag, c['id']))
            elif pos:
                chk.nontrivial(('cfg', tag, c['id']))
            # ---- optimum and trace of the optimised run
            stt, val, x = real.prob.solve()
            if pos:
                lat = max(b['val'] for b in pos) / cd
                if stt != 'optimal' or val < lat - 1e-6 * max(1, abs(lat)):
                    chk.violation(dict(sel, check='optimum'), 'implementation optimum %s below the automaton optimum %.9g' % (val, lat), dict(cfg=c))
                elif c['q'] == 1 and np.abs(x - np.round(x)).max() < 1e-6 and val > lat + 1e-6 * max(1, abs(lat)):
                    chk.violation(dict(sel, check='optimum'), 'implementation optimum %.9g (integral) above the automaton optimum %.9g' % (val, lat), dict(cfg=c))
            elif stt == 'optimal':
                chk.violation(dict(sel, check='optimum'), 'implementation feasible but the automaton has no behaviour', dict(cfg=c))
            for solver in ('SCIP', None):
                with quiet():
                    try:
                        res = real.op.optimize(solver=solver) if solver else real.op.optimize()
                    except Exception as e:
                        chk.cnt['optimize_raises_' + type(e).__name__] += 1
                        continue
                chk.cnt['eval_optimize'] += 1
                if isinstance(res, str):
                    chk.cnt['optimize_' + res.replace(' ', '_')] += 1
                    continue
                traces.append(uc_trace(real, res))
                tmeta.append((c, sel, solver))
        if behs:
            c0 = cfgs[0]
            chk.sample(dict(kind='automaton behaviour replayed into the Plant problem', family=tag, cfg=c0, behaviour=(behs.get(c0['id']) or [None])[0]), limit=4)
    # ---- batch trace validation
    if traces:
        bad = copy.deepcopy(traces[0])
        bad['steps'][0]['p'] += 50 * bad['K']
        verdicts, st = REC.validate_traces(traces + [bad], module='Trace_EAOUnitCommit', spec='TSpec')
        chk.add_tlc(st)
        chk.traces += len(traces)
        if verdicts[-1][1] == 'accepted':
            raise tlc.MachineryError('anti-vacuity: corrupted unit-commitment trace accepted')
        chk.notes['corrupted_trace_verdict'] = verdicts[-1][1]
        for (c, sel, solver), (line, v) in zip(tmeta, verdicts):
            if v == 'accepted':
                chk.cnt['traces_accepted'] += 1
            else:
                chk.violation(dict(sel, check='trace', guard=v, solver=str(solver)), 'optimised run rejected at step %d: %s' % (line, v), dict(cfg=c))
        chk.sample(dict(kind='trace of an optimised Plant run', trace=traces[0], verdict=verdicts[0]), limit=5)
    ramp_profiles(chk, tier, seed)
    chk.assumptions += ['consistent declared initial state (off => last dispatch 0; running => last dispatch within capacity)',
                        'equal step lengths within a grid (the implementation scales ramp and last dispatch with the first step); steps of one and two main time units',
                        'start/shutdown ramp profiles: plants that are off when the horizon begins, no ordinary ramp limit, whole-step profiles']
    return chk.finish(rule='all (min runtime, min downtime, initial state) tuples on T=%d with every one of the 2^T patterns pinned; output families '
                           '(capacity, ramp, costs); fuel/heat families; non-trivial = configuration with on-variables whose patterns were all compared' % T,
                      exhaustive=True)


def uc_trace(real, res, K=1000, tol=3):
    c = real.c
    x = np.asarray(res.x, float)
    cd = c['conv'][1]
    steps = []
    prev_on = c['run0'] > 0
    for t in range(c['T']):
        p = x[real.var[('disp', 'power', t)]]
        h = x[real.var[('disp', 'heat', t)]] if c['heat'] else 0.0
        if real.has_on():
            on = x[real.var[('bool_on', None, t)]] > 0.5
        else:
            on = (p + h) > 1e-6
        if ('bool_start', None, t) in real.var:
            stf = x[real.var[('bool_start', None, t)]] > 0.5
        else:
            stf = on and not prev_on
        prev_on = on
        steps.append(dict(on=bool(on), start=bool(stf), p=REC.fx(p, K), h=REC.fx(h, K),
                          rfuel=REC.fx(real.fuel_flow(x, t) * c['feff'][0] * cd, K)))
    coef = (max(abs(v) for v in c['price']) + c['runcost'] * c['d'] + max(c['startcost']) + c['fuelon'] * c['d'] + c['fuelstart'] + 2) * cd * c['T'] * 4 * max(c['feff'])
    # a start flag without transition is judged only where it costs money: in the stand-alone plant problem fuel has no price
    return dict(cfg=c, K=K, tol=tol, vtol=int(tol * coef + 2), chkflag=bool(c['startcost'][0] > 0), steps=steps,
                rval=REC.fx(float(res.value) * cd, K))


# ------------------------------------------------------------------------------------------ start / shutdown ramp profiles
RAMP_RELAX = ['min_down', 'min_run', 'start_flag_missing', 'off_output', 'cap', 'start_profile', 'shutdown_profile', 'off_without_shutdown_profile', 'ramp_up', 'ramp_down',
              'shutdown_profile_must_end_off', 'start_profile_heat', 'shutdown_profile_heat', 'cap_heat', 'heat_share']
RAMP_INVS = ['RunLongEnough', 'ProfilesFollowed', 'OffZero', 'HeatWithinShare', 'RampOutsideProfiles']


def fam_ramp_profiles(T=6, thorough=False, seed=0):
    out = []
    cid = 0
    srs = [[], [(1, 1)], [(1, 1), (2, 2)], [(1, 2)]]
    drs = [[], [(1, 1)], [(2, 2), (1, 1)], [(1, 2)]]      # dr[0]: the last step before switching off
    for sr, dr, minrun, mindown, off0 in itertools.product(srs, drs, (0, 2), (0, 2), (0, 1)):
        if not sr and not dr:
            continue
        if mindown > 1 and off0 == 0:
            continue      # the constructor requires a declared initial state
        if not thorough and (minrun, mindown) == (2, 2) and len(sr) + len(dr) > 2:
            continue
        cid += 1
        out.append(dict(id=cid, T=T, d=1, lo=3, hi=4, price=[-3, 1, -2, 2, -3, 1, -1, -2][:T], minrun=minrun, mindown=mindown, off0=off0, run0=0, startcost=1,
                        sr=[list(x) for x in sr], dr=[list(x) for x in dr], q=1))
    # plants declared running: still inside the start profile, just behind it, long behind it
    for sr, dr, minrun, run0 in itertools.product(srs[1:], drs[:3], (0, 2), (1, 2, 4)):
        if not thorough and minrun == 2 and len(dr) == 2:
            continue
        cid += 1
        out.append(dict(id=cid, T=T, d=1, lo=3, hi=4, price=[-3, 1, -2, 2, -3, 1, -1, -2][:T], minrun=minrun, mindown=0, off0=0, run0=run0, startcost=1,
                        sr=[list(x) for x in sr], dr=[list(x) for x in dr], q=1))
    for c in out:
        c.update(heat=False, srh=[[0, 0] for _ in c['sr']], drh=[[0, 0] for _ in c['dr']])
    # profiles given in another frequency than the grid (ramp_freq): grid step = a/b profile steps.  The SPECIFICATION converts
    # (EAOUnitCommitRamp.Conv); values are multiples of 6 so that every converted bound is an integer (ASSUME ConversionExact); unit
    # lattice (q = 1: a near-miss one unit outside a bound must not fall between lattice points), hence a narrow capacity range
    rfs = [('30min', 2, 1), ('2h', 1, 2), ('40min', 3, 2), ('90min', 2, 3)] + ([('20min', 3, 1), ('3h', 1, 3), ('60min', 1, 1)] if thorough else [])
    profs = [([(6, 6), (12, 12)], []), ([(6, 6), (12, 18), (18, 18)], []), ([], [(12, 12), (6, 6)]), ([(6, 6), (12, 12)], [(18, 18), (12, 12), (6, 6)]),
             ([(6, 12)], [(6, 6)])]
    for k, ((rfreq, a, b), (sr, dr), minrun) in enumerate(itertools.product(rfs, profs, (0, 2))):
        if not thorough and (minrun == 2 and len(sr) + len(dr) > 3 or (k + k // 10 + seed) % 3):
            continue      # quick tier: a third of the grid per seed, every frequency ratio with at least two profiles
        cid += 1
        out.append(dict(id=cid, T=T, d=1, lo=18, hi=19, price=[-3, 1, -2, 2, -3, 1, -1, -2][:T], minrun=minrun, mindown=0, off0=0, run0=0, startcost=1,
                        sr=[list(x) for x in sr], dr=[list(x) for x in dr], q=1, heat=False, srh=[[0, 0] for _ in sr], drh=[[0, 0] for _ in dr],
                        rf=[a, b], rfreq=rfreq))
    # CHP: bounds of the virtual output AND of the heat in the profile steps (both heat profiles given, as the implementation requires)
    Th = min(T, 4)
    for (sr, srh), (dr, drh), minrun, run0 in itertools.product([([(1, 2)], [(0, 1)]), ([(1, 1), (2, 3)], [(0, 0), (1, 1)])],
                                                               [([(1, 2)], [(0, 1)]), ([(2, 2), (1, 1)], [(1, 1), (0, 0)])], (0, 1), (0, 1)):
        if not thorough and minrun == 1 and len(sr) + len(dr) > 3:
            continue
        cid += 1
        out.append(dict(id=cid, T=Th, d=1, lo=2, hi=3, price=[-3, 1, -2, 2][:Th], minrun=minrun, mindown=0, off0=0 if run0 else 2, run0=run0, startcost=1,
                        sr=[list(x) for x in sr], dr=[list(x) for x in dr], q=1, heat=True, srh=[list(x) for x in srh], drh=[list(x) for x in drh]))
    for (rfreq, a, b) in [('30min', 2, 1), ('2h', 1, 2)]:
        cid += 1
        out.append(dict(id=cid, T=Th, d=1, lo=12, hi=13, price=[-3, 1, -2, 2][:Th], minrun=0, mindown=0, off0=2, run0=0, startcost=1,
                        sr=[[6, 6], [12, 12]], dr=[[12, 12], [6, 6]], q=1, heat=True, srh=[[0, 0], [6, 6]], drh=[[6, 6], [0, 0]], rf=[a, b], rfreq=rfreq))
    # the ordinary ramp limit TOGETHER with profiles ("except during time steps that belong to the start or shutdown ramp"): plants off at the start,
    # capacity range wide enough for the limit to bind between on-steps, into the first shutdown-profile step and out of the last start-profile step
    for (sr, dr), ramp, minrun in itertools.product([([(1, 1)], []), ([(1, 1), (2, 2)], [(1, 1)]), ([], [(2, 2), (1, 1)]), ([(1, 2)], [(1, 2)]), ([], [(1, 1)])], (1, 2), (0, 1)):
        if not thorough and (minrun == 1 and len(sr) + len(dr) > 2 or (cid + seed) % 2):
            cid += 1
            continue
        cid += 1
        out.append(dict(id=cid, T=T, d=1, lo=2, hi=4, price=[-3, 1, -2, 2, -3, 1, -1, -2][:T], minrun=minrun, mindown=0, off0=2, run0=0, startcost=1,
                        sr=[list(x) for x in sr], dr=[list(x) for x in dr], q=1, heat=False, srh=[[0, 0] for _ in sr], drh=[[0, 0] for _ in dr], ramp=ramp))
    for c in out:
        c.setdefault('rf', [1, 1])
        c.setdefault('rfreq', None)
        c.setdefault('ramp', -1)
        c.setdefault('last0', (c['sr'][c['run0'] - 1][0] if 0 < c['run0'] <= len(c['sr']) else c['lo']) if c['run0'] > 0 else 0)
    return out


class RampReal:
    def __init__(self, c, presetup_mtu=None, mtu='h'):
        self.c = c
        self.presetup_mtu = presetup_mtu
        start = pd.Timestamp(CALENDARS['h'][0])
        # main time unit of the grid: rates (capacities, profiles, ramp, last dispatch) and durations are re-expressed (f main time units per hour);
        # the profiles are then declared as hourly (ramp_freq), as they are meant
        f = {'h': 1., 'min': 60., 'd': 1. / 24.}[mtu]
        self.tg = eao.assets.Timegrid(start, start + c['T'] * pd.Timedelta('1h'), freq='h', main_time_unit=mtu)
        nodes = [eao.assets.Node('power')] + ([eao.assets.Node('heat')] if c['heat'] else [])
        kw = dict(name='PL', nodes=nodes, min_cap=float(c['lo']) / f, max_cap=float(c['hi']) / f, price='p', start_costs=float(c['startcost']),
                  min_runtime=c['minrun'] * f, min_downtime=c['mindown'] * f, time_already_off=c['off0'] * f, time_already_running=c['run0'] * f,
                  last_dispatch=float((c['sr'][c['run0'] - 1][0] if 0 < c['run0'] <= len(c['sr']) else c['lo']) if c['run0'] > 0 else 0) / f)
        if c.get('rfreq'):
            kw.update(ramp_freq=c['rfreq'])
        elif mtu != 'h':
            kw.update(ramp_freq='h')
        if c.get('ramp', -1) >= 0:
            kw.update(ramp=float(c['ramp']) / f)
        if c['sr']:
            kw.update(start_ramp_lower_bounds=[float(x[0]) / f for x in c['sr']], start_ramp_upper_bounds=[float(x[1]) / f for x in c['sr']])
        if c['dr']:
            kw.update(shutdown_ramp_lower_bounds=[float(x[0]) / f for x in c['dr']], shutdown_ramp_upper_bounds=[float(x[1]) / f for x in c['dr']])
        if c['heat']:
            if c['sr']:
                kw.update(start_ramp_lower_bounds_heat=[float(x[0]) / f for x in c['srh']], start_ramp_upper_bounds_heat=[float(x[1]) / f for x in c['srh']])
            if c['dr']:
                kw.update(shutdown_ramp_lower_bounds_heat=[float(x[0]) / f for x in c['drh']], shutdown_ramp_upper_bounds_heat=[float(x[1]) / f for x in c['drh']])
            self.asset = eao.assets.CHPAsset(conversion_factor_power_heat=1., max_share_heat=1., **kw)
        else:
            self.asset = eao.assets.Plant(**kw)
        with quiet():
            if self.presetup_mtu:
                # lifecycle prefix: the same object was set up before on a grid with ANOTHER main time unit (a legitimate, different problem
                # whose result is not used); what that leaves on the object must not reach the set-up under test
                tg0 = eao.assets.Timegrid(start, start + c['T'] * pd.Timedelta('1h'), freq='h', main_time_unit=self.presetup_mtu)
                try:
                    self.asset.setup_optim_problem({'p': np.asarray(c['price'], float)}, tg0)
                except Exception:
                    pass
            self.op = self.asset.setup_optim_problem({'p': np.asarray(c['price'], float)}, self.tg)
        self.prob = Problem(self.op)
        m = self.op.mapping
        self.var = {}
        for idx, vn, ts, nd in zip(m.index.values, m['var_name'].values, m['time_step'].values, m['node'].values):
            self.var.setdefault((vn if nd != 'heat' else 'disp_heat', int(ts)), int(idx))

    def pins(self, steps, what=('on', 'start', 'p')):
        pins = {}
        for t, s_ in enumerate(steps):
            if 'p' in what:
                pins[self.var[('disp', t)]] = float(s_['p'])
                if self.c['heat']:
                    pins[self.var[('disp_heat', t)]] = float(s_.get('h', 0))
            if 'on' in what and ('bool_on', t) in self.var:
                pins[self.var[('bool_on', t)]] = 1.0 if s_['on'] else 0.0
            if 'start' in what and ('bool_start', t) in self.var:
                pins[self.var[('bool_start', t)]] = 1.0 if s_['start'] else 0.0
        return pins


def enumerate_ramp(cfgs, relax=(), name='MCramp'):
    wd = tlc.scratch()
    try:
        defs = {'MCConfigs': '{' + ',\n   '.join(tlc.tla({k: v for k, v in c.items() if k != 'rfreq'}) for c in cfgs) + '}', 'MCRelax': tlc.tla(set(relax))}
        lines = ['SPECIFICATION Spec', 'CONSTANT Configs <- MCConfigs', 'CONSTANT Relax <- MCRelax', 'CONSTRAINT Emit', 'CHECK_DEADLOCK FALSE'] + ['INVARIANT ' + i for i in RAMP_INVS]
        tlc.write_mc(wd, name, 'EAOUnitCommitRamp', defs, lines)
        r = tlc.run_tlc(wd, name)
        if r['unparsed']:
            r = tlc.run_tlc(wd, name, workers=1)
        behs = collections.defaultdict(list)
        for tag, rec in r['records']:
            behs[rec['cid']].append(rec)
        return behs, dict(generated=r['generated'], distinct=r['distinct'], violated=r['violated'], tail=r['out'][-2000:] if r['violated'] else '')
    finally:
        shutil.rmtree(wd, ignore_errors=True)


def ramp_profiles(chk, tier, seed):
    th = tier == 'thorough'
    cfgs = fam_ramp_profiles(6 if th else 5, thorough=th, seed=seed)
    behs, st = enumerate_ramp(cfgs)
    chk.add_tlc(st)
    if st['violated']:
        chk.violation(dict(check='spec_invariant', invariant=st['violated'], family='ramp_profiles'), 'TLC: invariant violated on EAOUnitCommitRamp', st['tail'])
        return
    negs, st2 = enumerate_ramp(cfgs if th else cfgs[seed % 2::2], relax=RAMP_RELAX, name='MCrampneg')
    chk.add_tlc(st2)
    for c in cfgs:
        sel = dict(family='ramp_profiles', heat=c['heat'], T=c['T'], start_profile=len(c['sr']), shutdown_profile=len(c['dr']), minrun=c['minrun'], mindown=c['mindown'], off0=c['off0'], run0=c['run0'],
                   ramp_freq=c.get('rfreq') or 'grid', ramp=c.get('ramp', -1) >= 0)
        try:
            real = RampReal(c)
        except Exception as e:
            chk.violation(dict(sel, check='setup_raises', error=type(e).__name__), 'set-up raised %s: %s' % (type(e).__name__, e), dict(cfg=c))
            continue
        pos = behs.get(c['id'], [])
        prefix_keys = set()
        prefix_keys_free = set()      # the same prefixes with the start flags left free (pattern and outputs only)
        for b in pos:
            chk.cnt['eval_pos'] += 1
            for n in range(len(b['steps']) + 1):
                prefix_keys.add((n, tuple(sorted(real.pins(b['steps'][:n]).items()))))
                prefix_keys_free.add((n, tuple(sorted(real.pins(b['steps'][:n], what=('on', 'p')).items()))))
            stt, val, x = real.prob.solve(real.pins(b['steps']))
            if stt != 'optimal':
                chk.violation(dict(sel, check='replay_positive'), 'behaviour of the profile automaton is infeasible in the implementation', dict(cfg=c, behaviour=b))
            elif abs(val - b['val']) > 1e-7 * max(1, abs(val)):
                chk.violation(dict(sel, check='replay_value'), 'value differs: implementation %.9g specification %.9g' % (val, b['val']), dict(cfg=c, behaviour=b))
        for b in [b for b in negs.get(c['id'], []) if b['fault']]:
            pins = real.pins(b['steps'])
            chk.cnt['fault_' + b['fault']] += 1
            if (len(b['steps']), tuple(sorted(pins.items()))) in prefix_keys:
                chk.cnt['neg_skipped'] += 1
                continue
            chk.cnt['eval_neg'] += 1
            if real.prob.solve(pins)[0] == 'optimal':
                last_step = b['at'] == c['T']
                chk.violation(dict(sel, check='replay_negative', fault=b['fault'], at_last_step=last_step),
                              'near-miss (%s at step %d of %d) is feasible in the implementation' % (b['fault'], b['at'], c['T']), dict(cfg=c, behaviour=b))
            elif b['fault'] in ('cap', 'start_profile', 'shutdown_profile') and (c['sr'] or c['dr']):
                # an output outside its bounds must not become feasible by FLAGGING differently either (a start flagged while the plant is on would
                # re-apply the start profile): the same prefix with the start flags left free (with profiles the flags are defined exactly)
                pf_ = real.pins(b['steps'], what=('on', 'p'))
                if (len(b['steps']), tuple(sorted(pf_.items()))) not in prefix_keys_free:
                    chk.cnt['eval_neg_flags_free'] += 1
                    if real.prob.solve(pf_)[0] == 'optimal':
                        chk.violation(dict(sel, check='replay_negative_flags_free', fault=b['fault']),
                                      'near-miss (%s at step %d of %d) becomes feasible when the start flags are left free' % (b['fault'], b['at'], c['T']), dict(cfg=c, behaviour=b))
        reach = {tuple(bool(s_['on']) for s_ in b['steps']) for b in pos}
        for pat in itertools.product((False, True), repeat=c['T']):
            chk.cnt['eval_patterns'] += 1
            feas = real.prob.solve(real.pins([dict(on=o) for o in pat], what=('on',)))[0] == 'optimal'
            if feas != (pat in reach):
                chk.violation(dict(sel, check='pattern_feasible_but_unreachable' if feas else 'pattern_reachable_but_infeasible', ends_on=bool(pat[-1]),
                                   last_run=_last_run(pat)),
                              'pattern %s: implementation %s, profile automaton %s' % (''.join('1' if o else '0' for o in pat), 'feasible' if feas else 'infeasible',
                                                                                       'reachable' if pat in reach else 'unreachable'), dict(cfg=c, pattern=pat))
        chk.nontrivial(('ramp', c['id']))


def _last_run(pat):
    """length of the on-run at the end of the horizon (0 if the pattern ends off)"""
    n = 0
    for o in reversed(pat):
        if not o:
            break
        n += 1
    return n
