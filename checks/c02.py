"""C02 reference equivalence: the assembled LP means what the asset documentation says.

TLC enumerates every lattice schedule of EAOModel (the textbook formulation as guarded actions) for exhaustive
parameter grids over the four asset classes of the statement; every schedule must be feasible and identically
priced in the real assembled problem, every near-miss infeasible, the LP optimum equal to the lattice optimum
(where the LP optimum is observed on the lattice), and the optimal dispatch EAO returns must be a behaviour of
the specification (trace validation)."""
import random

from harness import pipeline as P
from harness import realise as R
from harness.check import CheckRun

from . import common, fam

RELAX = ['group_rate', 'cap', 'rate', 'level_lo', 'level_hi', 'end_level', 'min_take', 'max_take', 'outside_window', 'balance']


def families(tier):
    th = tier == 'thorough'
    fs = [('contract', fam.fam_contract(thorough=th)), ('takes', fam.fam_takes(thorough=th)),
          ('transport', fam.fam_transport(thorough=th)), ('transport_takes', fam.fam_transport_takes()),
          ('storage', fam.fam_storage(thorough=th)),
          ('multi', fam.fam_multi(thorough=th)), ('discount', fam.fam_discount(thorough=th)),
          # discount rates that differ between assets sharing a window and a coarser frequency (what an asset leaves on the shared grid)
          ('coarse_discount', fam.fam_coarse_discount()),
          ('composite', fam.fam_composite(thorough=th)[::1 if th else 3])]
    if th:
        fs.append(('storage_T4', fam.fam_storage(T=4, variants=fam.STORAGES[:6])))
    return fs


def run(tier, seed):
    chk = CheckRun('C02', tier, seed)
    rnd = random.Random(seed)
    forms = ['col', 'dict', 'scalar']
    for tag, cfgs in families(tier):
        def make_real(cfg):
            return R.Real(cfg, form=forms[(cfg['id'] + seed) % 3])
        step = 6 if tier == 'quick' else 2
        neg = [c for k, c in enumerate(cfgs) if k % step == (seed % step)]
        pos = common.spec_to_code(chk, cfgs, make_real, relax=RELAX, neg_cfgs=neg, tag=tag)
        common.code_to_spec(chk, cfgs, make_real, tag=tag, expect_feasible=(lambda c, pos=pos: bool(pos and pos['behs'].get(c['id']))))
    # long horizons: random walks of the specification (TLC -simulate) replayed into the implementation
    common.long_horizon(chk, tier, seed, [('contract', fam.fam_contract), ('takes', fam.fam_takes), ('transport', fam.fam_transport),
                                          ('transport_takes', fam.fam_transport_takes), ('multi', fam.fam_multi), ('composite', fam.fam_composite)], RELAX)
    # larger seeded portfolios (T = 12 / 24, up to 10 assets): TLC validates the optimiser's output, it does not enumerate
    common.code_to_spec(chk, fam.fam_random(seed + 100, n=16 if tier == 'quick' else 80, T=12 if tier == 'quick' else 24), lambda c: R.Real(c), tag='random', solvers=('SCIPY', None))
    chk.assumptions += ['parameters, prices and schedules on integer lattices in small ranges (DESIGN.md (L))',
                        'HiGHS (scipy.optimize.milp) decides feasibility of pinned assignments',
                        'documented parameter domains (DESIGN.md 5.1)']
    return chk.finish(rule='fixed exhaustive parameter grids per asset class (contract spread/caps, takes placed around the horizon, '
                           'transport orientation/efficiency/costs, storage variants x windows x one/two nodes, multi-commodity factors, '
                           'discounting); a configuration is non-trivial when TLC finds at least one complete behaviour for it, a trace when accepted',
                      exhaustive=True)
