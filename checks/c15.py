"""C15 fixing a time window pins exactly that part of the solution: every variable having a mapping row with a step in the window
takes its previous value, all others keep their bounds; with unchanged prices the optimal value is unchanged."""
import copy
import datetime as dt

import numpy as np
import pandas as pd

from harness import assembly as ASM
from harness import record as REC
from harness import tlc, zoo
from harness.check import CheckRun
from harness.realise import eao, quiet
from harness.replay import Problem


def windows(T, tg):
    """(label, what the user passes as 'I', set of steps meant)"""
    out = []
    half = T // 2
    mask = np.zeros(T, bool)
    mask[:half] = True
    out.append(('mask_first_half', mask.copy(), set(range(half))))
    m2 = np.zeros(T, bool)
    m2[1:T - 1] = True
    out.append(('mask_middle', m2, set(range(1, T - 1))))
    out.append(('index_list', list(range(0, 2)), {0, 1}))
    d = tg.timepoints[half - 1]
    out.append(('date', d.to_pydatetime() if hasattr(d, 'to_pydatetime') else d, set(range(half))))     # all steps starting not after the date
    out.append(('mask_none', np.zeros(T, bool), set()))
    out.append(('mask_all', np.ones(T, bool), set(range(T))))
    return out


def run(tier, seed):
    chk = CheckRun('C15', tier, seed)
    th = tier == 'thorough'
    traces, meta = [], []
    for s in range(seed, seed + (1 if not th else 4)):
        for z in zoo.ZOO:
            name, pf, pr, tg = z(s)
            T = tg.T
            try:
                with quiet():
                    op0 = pf.setup_optim_problem(pr, tg)
                p0 = Problem(op0)
                st0, v0, x0 = p0.solve()
            except Exception as e:
                raise tlc.MachineryError('zoo portfolio %s cannot be set up: %s' % (name, e))
            if st0 != 'optimal':
                continue
            for wname, I, steps in windows(T, tg):
                sel = dict(check='fix_window', portfolio=name, window=wname)
                fw = {'I': copy.deepcopy(I), 'x': x0.copy()}
                name2, pf2, pr2, tg2 = z(s)        # fresh objects
                chk.cnt['eval_fix_setups'] += 1
                try:
                    with quiet():
                        op1 = pf2.setup_optim_problem(pr2, tg2, fix_time_window=fw)
                except Exception as e:
                    chk.violation(dict(sel, check='setup_raises', error=type(e).__name__), 'set-up with fix_time_window raised %s: %s' % (type(e).__name__, str(e)[:120]),
                                  dict(portfolio=name, seed=s, window=wname))
                    continue
                tr = ASM.assembly_trace(pf2, pr2, tg2, op1, fix=dict(win=sorted(steps), x=ASM.vec(x0), l0=ASM.vec(op0.l), u0=ASM.vec(op0.u),
                                                                     l1=ASM.vec(op1.l), u1=ASM.vec(op1.u)))
                # the per-asset tables are not needed for the fix clause: keep the trace small
                # (only the declared window of each asset is kept: which step a variable belongs to is read from the mapping, and the mapping is
                #  anchored to the declaration by the clause step_in_window)
                tr['assets'] = [dict(win=t['win'], nodes=t['nodes']) for t in tr['assets']]
                tr['g']['rows'] = []
                tr['g']['nodal'] = []
                traces.append(tr)
                meta.append(sel)
                # re-optimise: unchanged prices -> unchanged value; window part equals the previous solution
                p1 = Problem(op1)
                st1, v1, x1 = p1.solve()
                if st1 != 'optimal' or abs(v1 - v0) > 1e-6 * max(1, abs(v0)):
                    chk.violation(dict(sel, check='value_changed'), 'value after fixing the window with unchanged prices: %s, before: %.9g' % (v1, v0), dict(portfolio=name, seed=s, window=wname))
                # a second set-up with the SAME user dictionary must give the same bounds (purity of the dict)
                try:
                    name3, pf3, pr3, tg3 = z(s)
                    with quiet():
                        op2 = pf3.setup_optim_problem(pr3, tg3, fix_time_window=fw)
                    if not (np.array_equal(op2.l, op1.l) and np.array_equal(op2.u, op1.u)):
                        chk.violation(dict(sel, check='dict_reuse'), 're-using the fix_time_window dictionary gives other bounds', dict(portfolio=name, seed=s, window=wname))
                except Exception as e:
                    chk.violation(dict(sel, check='dict_reuse_raises', error=type(e).__name__), 're-using the fix_time_window dictionary raised %s: %s' % (type(e).__name__, str(e)[:100]),
                                  dict(portfolio=name, seed=s, window=wname))
                # new prices: fixed part stays, the rest is free to move
                pr4 = {k: v[::-1].copy() for k, v in pr2.items()}
                name4, pf4, _, tg4 = z(s)
                try:
                    with quiet():
                        op4 = pf4.setup_optim_problem(pr4, tg4, fix_time_window={'I': copy.deepcopy(I), 'x': x0.copy()})
                    st4, v4, x4 = Problem(op4).solve()
                    if st4 == 'optimal':
                        m = op4.mapping
                        inwin = np.unique(m.index[m['time_step'].isin(list(steps))].values).astype(int)
                        if len(inwin) and np.abs(x4[inwin] - x0[inwin]).max() > 1e-6:
                            chk.violation(dict(sel, check='window_moved'), 'variables of the fixed window changed under new prices', dict(portfolio=name, seed=s, window=wname))
                        else:
                            chk.nontrivial((name, wname, s))
                except Exception as e:
                    chk.violation(dict(sel, check='setup_raises_new_prices', error=type(e).__name__), 'set-up with fix_time_window and new prices raised %s' % type(e).__name__,
                                  dict(portfolio=name, seed=s, window=wname))
    if traces:
        bad = copy.deepcopy(traces[0])
        bad['fix']['l1'][0] -= 500
        verdicts, st = REC.validate_traces(traces + [bad], module='Trace_EAOAssembly')
        chk.add_tlc(st)
        chk.traces += len(traces)
        if verdicts[-1][1] == 'accepted':
            raise tlc.MachineryError('anti-vacuity: corrupted fix-window trace accepted')
        chk.notes['corrupted_fix_trace_verdict'] = verdicts[-1][1]
        for sel, (line, v) in zip(meta, verdicts):
            if v == 'accepted':
                chk.cnt['fix_traces_accepted'] += 1
            else:
                chk.violation(dict(sel, clause=v), 'bounds after fixing violate clause "%s"' % v, dict(portfolio=sel['portfolio'], window=sel['window']))
        chk.sample(dict(kind='fix-window trace', portfolio=meta[0]['portfolio'], window=meta[0]['window'], fix={k: traces[0]['fix'][k][:8] for k in traces[0]['fix']}, verdict=verdicts[0]))
    chk.assumptions += ['"belonging to a step in the window" is read as: one of the variable\'s mapping rows has a step in the window',
                        'a date as window means all steps starting not after that date (as documented)']
    return chk.finish(rule='zoo of 16 portfolios over all asset types (several rows per variable: transport, multi-commodity, CHP fuel, coarse, order books; appended variables) '
                           'x 6 window forms (masks, index list, date, empty, all) x seeds; non-trivial = window fixed and re-optimised under new prices', exhaustive=False)
