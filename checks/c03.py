"""C03 optimiser contract: a reported solution is feasible (bounds, rows by class, booleans), value = -c.x, optimal;
a reported failure means the problem is infeasible.  Decided by TLC on the EAOSolve specification for every recorded
call of the real OptimProblem.optimize on tiny integral programs, with every installed solver."""
import copy
import itertools
import random

import numpy as np
import pandas as pd
import scipy.sparse as sp

from harness import record as REC
from harness import tlc
from harness.check import CheckRun
from harness.realise import eao, quiet

LP_SOLVERS = [None, 'CLARABEL', 'SCIPY', 'SCIP', 'OSQP', 'SCS']
MIP_SOLVERS = [None, 'SCIPY', 'SCIP']
TOL = {None: 5, 'CLARABEL': 5, 'SCIPY': 2, 'SCIP': 2, 'OSQP': 300, 'SCS': 300}
K = 10000

ROWS3 = [
    dict(a=[1, 1, 0], b=2, cls='U'), dict(a=[0, 1, 1], b=1, cls='L'), dict(a=[1, 1, 1], b=2, cls='S'), dict(a=[1, 1, 0], b=1, cls='N'),
    dict(a=[0, 0, 1], b=1, cls='U'), dict(a=[1, 0, 0], b=1, cls='L'), dict(a=[0, 1, 1], b=3, cls='N'), dict(a=[1, 1, 1], b=7, cls='L'),
    dict(a=[1, 1, 0], b=-3, cls='U'), dict(a=[0, 1, 0], b=1, cls='S'),
]


def programs(tier, seed):
    rnd = random.Random(seed)
    out = []
    costs = [[1, 2, -1], [-1, -2, 1], [1, -1, 2], [-2, 1, -1]]
    boxes = [([0, 0, 0], [2, 2, 2]), ([-1, 0, 0], [1, 2, 1]), ([0, 1, 0], [2, 1, 3])]
    rowsets = []
    for k in (1, 2, 3, 4):
        for comb in itertools.combinations(range(len(ROWS3)), k):
            rowsets.append(comb)
    rnd.shuffle(rowsets)
    # every set containing all four classes comes first, then a seeded sample of the rest
    allfour = [rs for rs in rowsets if {ROWS3[i]['cls'] for i in rs} == {'U', 'L', 'S', 'N'}]
    rest = [rs for rs in rowsets if rs not in allfour]
    chosen = allfour[:40 if tier == 'quick' else 200] + rest[:140 if tier == 'quick' else 600]
    bools_opts = [[False] * 3, [True, False, False], [False, True, True], [True, True, True]]
    for k, rs in enumerate(chosen):
        c = costs[k % len(costs)]
        l, u = boxes[(k // 2) % len(boxes)]
        bl = bools_opts[k % len(bools_opts)] if k % 2 else bools_opts[0]
        out.append(dict(n=3, c=c, l=list(l), u=list(u), rows=[copy.deepcopy(ROWS3[i]) for i in rs], bools=list(bl), dup=k % 3))
    # booleans with non-0/1 bounds
    for bl, (l, u) in itertools.product([[True, False], [True, True]], [([0, 0], [2, 2]), ([1, 0], [1, 2]), ([0, 0], [0, 1]), ([-1, 0], [1, 1])]):
        for c in ([-1, -1], [1, -2], [2, 1]):
            out.append(dict(n=2, c=c, l=list(l), u=list(u), rows=[dict(a=[1, 1], b=2, cls='U'), dict(a=[1, 1], b=1, cls='L')], bools=list(bl), dup=1))
    # booleans with FRACTIONAL bounds (a fixed window filled from a relaxed run, user-given bounds): [1/2, 1] forces 1, [0, 7/10] forces 0,
    # [3/10, 3/10] admits no value; the forced value is the unattractive one, so bounds rounded the wrong way change optimum / feasibility
    for (l0, u0, d0), c in itertools.product([(1, 2, 2), (0, 7, 10), (3, 3, 10), (1, 3, 2), (-1, 1, 2), (3, 10, 10)], ([-2, -1], [2, -1], [1, 1])):
        out.append(dict(n=2, c=c, l=[l0, 0], u=[u0, 2], den=[d0, 1], rows=[dict(a=[1, 1], b=2, cls='U')], bools=[True, False], dup=0, binding=True))
        out.append(dict(n=3, c=c + [-1], l=[0, l0, 0], u=[1, u0, 1], den=[1, d0, 1], rows=[dict(a=[1, 1, 1], b=3, cls='U'), dict(a=[1, 0, 1], b=1, cls='L')],
                        bools=[True, True, True], dup=0, binding=True))
    # four variables, equality and nodal rows that are tight only away from the unconstrained optimum
    for c in ([1, 1, -1, -1], [-1, 2, -2, 1]):
        for rows in ([dict(a=[1, 1, 0, 0], b=1, cls='N'), dict(a=[0, 0, 1, 1], b=1, cls='S')],
                     [dict(a=[1, 1, 1, 1], b=2, cls='N'), dict(a=[0, 1, 1, 0], b=1, cls='L'), dict(a=[1, 1, 0, 0], b=1, cls='U')],
                     [dict(a=[1, 1, 1, 1], b=9, cls='S')]):
            out.append(dict(n=4, c=c, l=[0, 0, 0, 0], u=[1, 2, 1, 2], rows=copy.deepcopy(rows), bools=[False] * 4, dup=0))
    # no rows at all
    out.append(dict(n=2, c=[1, -1], l=[0, 0], u=[1, 2], rows=[], bools=[False, False], dup=0))
    # mapping layout: rows in reversed order; a variable without mapping row (inert: zero cost, in no row) placed BEFORE boolean variables
    extra = []
    # boolean variables whose 0/1 restriction BINDS (negative cost, upper bound 2, slack rows): a lost or misplaced flag changes the optimum
    for bl in ([True, False, False], [False, True, False], [False, False, True], [True, False, True]):
        for c in ([-2, -1, -3], [-1, -1, -1]):
            out.append(dict(n=3, c=c, l=[0, 0, 0], u=[2, 2, 2], rows=[dict(a=[1, 1, 1], b=6, cls='U'), dict(a=[1, 1, 0], b=1, cls='L')], bools=list(bl), dup=0, binding=True))
    withbool = [q for q in out if any(q['bools'])]
    withbool = [q for q in withbool if q.get('binding')] + [q for q in withbool if not q.get('binding')]
    # programs whose boolean variables have bounds beyond 0/1 (there a lost or misplaced flag changes the feasible set) come first
    nonbin = [q for q in withbool if any(b and (u > 1 or l < 0) for b, l, u in zip(q['bools'], q['l'], q['u']))]
    for p in (nonbin + [q for q in withbool if q not in nonbin])[:24]:
        r = copy.deepcopy(p)
        r['maporder'] = 'reversed'
        extra.append(r)
        g = copy.deepcopy(p)
        # prepend an inert continuous variable 0: shifts every other variable by one
        g['n'] = p['n'] + 1
        g['c'] = [0] + p['c']
        g['l'] = [0] + p['l']
        g['u'] = [3] + p['u']
        g['bools'] = [False] + p['bools']
        if 'den' in p:
            g['den'] = [1] + p['den']
        g['rows'] = [dict(a=[0] + rr['a'], b=rr['b'], cls=rr['cls']) for rr in p['rows']]
        g['maporder'] = 'gap'
        g['gapvar'] = 0
        g['dup'] = 0
        extra.append(g)
    out += extra
    # keep every feasible program and one infeasible program for every three feasible ones (the mix is decided by
    # plain enumeration here only to balance the family; the verdicts come from TLC)
    feas = [p for p in out if brute(p) is not None]
    infe = [p for p in out if brute(p) is None]
    return feas + infe[:max(4, len(feas) // 3)]


def brute(p):
    best = None
    den = p.get('den', [1] * p['n'])
    lu = [(-((-l) // d), u // d) for l, u, d in zip(p['l'], p['u'], den)]
    rng = [range(max(l, 0) if b else l, (min(u, 1) if b else u) + 1) for (l, u), b in zip(lu, p['bools'])]
    for y in itertools.product(*rng):
        ok = True
        for r in p['rows']:
            v = sum(a * x for a, x in zip(r['a'], y))
            if (r['cls'] == 'U' and v > r['b']) or (r['cls'] == 'L' and v < r['b']) or (r['cls'] in 'SN' and v != r['b']):
                ok = False
                break
        if ok:
            val = -sum(c * x for c, x in zip(p['c'], y))
            if best is None or val > best[0]:
                best = (val, y)
    return best


def build_op(p):
    n = p['n']
    m = pd.DataFrame(dict(asset=['a'] * n, node=['n'] * n, type=['d'] * n, time_step=list(range(n)), var_name=['disp'] * n))
    m.index = list(range(n))
    if any(p['bools']) or p['dup'] == 2:
        m['bool'] = p['bools']
    if p['dup'] == 1:      # duplicated mapping rows AFTER the originals (several rows per variable)
        m = pd.concat([m, m.iloc[:max(1, n - 1)]])
    elif p['dup'] == 2:    # duplicated rows BEFORE
        m = pd.concat([m.iloc[1:], m])
    if p.get('maporder') == 'reversed':      # mapping rows not in the order of the variables (the index still names the variable)
        m = m.iloc[::-1]
    elif p.get('maporder') == 'gap':         # a continuous variable without any mapping row (zero cost, in no row): e.g. an order outside the horizon
        g = p['gapvar']
        m = m[m.index != g]
    if p['rows']:
        A = sp.lil_matrix(np.array([r['a'] for r in p['rows']], float))
        b = np.array([r['b'] for r in p['rows']], float)
        ct = ''.join(r['cls'] for r in p['rows'])
    else:
        A, b, ct = None, None, None
    den = np.array(p.get('den', [1] * n), float)
    return eao.optimization.OptimProblem(c=np.array(p['c'], float), l=np.array(p['l'], float) / den, u=np.array(p['u'], float) / den,
                                         A=A, b=b, cType=ct, mapping=m)


def outcome(p, res, solver):
    tol = TOL[solver]
    base = dict(p={k: p[k] for k in ('n', 'c', 'l', 'u', 'rows', 'bools', 'den') if k in p}, K=K, tol=tol,
                vtol=int(tol * (sum(abs(v) for v in p['c']) + 1) + 2))
    if isinstance(res, str):
        base['kind'] = 'inaccurate' if res == 'inaccurate' else 'failure'
        base['text'] = res
        base['x'] = []
        base['v'] = 0
    else:
        base['kind'] = 'solution'
        base['x'] = [REC.fx(v, K) for v in np.asarray(res.x, float)]
        base['v'] = REC.fx(float(res.value), K)
    return base


def run(tier, seed):
    chk = CheckRun('C03', tier, seed)
    progs = programs(tier, seed)
    traces, meta = [], []
    for k, p in enumerate(progs):
        mip = any(p['bools'])
        for solver in (MIP_SOLVERS if mip else LP_SOLVERS):
            op = build_op(p)
            chk.cnt['eval_optimize_calls'] += 1
            try:
                with quiet():
                    res = op.optimize(solver=solver) if solver else op.optimize()
            except Exception as e:
                chk.cnt['optimize_raised_' + type(e).__name__] += 1
                continue
            traces.append(outcome(p, res, solver))
            meta.append(dict(check='solve', solver=str(solver), mip=mip, classes=''.join(sorted({r['cls'] for r in p['rows']})), prog=k, dup=p['dup']))
        if mip and 'den' not in p:      # (with fractional bounds the relaxed polytope is not integral: not decided on the lattice)
            # make_soft_problem: the relaxation (flags dropped, bounds kept); the row templates are interval rows, so the relaxed polytope is integral
            for solver in (None, 'SCIPY', 'CLARABEL'):
                op = build_op(p)
                chk.cnt['eval_optimize_calls'] += 1
                chk.cnt['eval_soft_calls'] += 1
                try:
                    with quiet():
                        res = op.optimize(solver=solver, make_soft_problem=True) if solver else op.optimize(make_soft_problem=True)
                except Exception as e:
                    chk.cnt['optimize_raised_' + type(e).__name__] += 1
                    continue
                t = outcome(p, res, solver)
                t['soft'] = True
                traces.append(t)
                meta.append(dict(check='solve_soft', solver=str(solver), mip=mip, classes=''.join(sorted({r['cls'] for r in p['rows']})), prog=k, dup=p['dup']))
    # call histories on ONE problem object: every response must satisfy the contract of the program as assembled, whatever was
    # called before (relaxed and exact solves interleaved, solvers changed)
    hist_progs = [(k, p) for k, p in enumerate(progs) if any(p['bools']) and 'den' not in p]
    hist_progs = [kp for kp in hist_progs if kp[1].get('binding')] + [kp for kp in hist_progs if not kp[1].get('binding')][seed % 3::3]
    for k, p in hist_progs[:40 if tier == 'quick' else 400]:
        bools0 = list(p['bools'])
        op = build_op(p)
        for pos, (soft, solver) in enumerate([(True, 'SCIPY'), (False, 'SCIPY'), (True, None), (False, None), (False, 'SCIP')]):
            chk.cnt['eval_optimize_calls'] += 1
            chk.cnt['eval_history_calls'] += 1
            try:
                with quiet():
                    kw = dict(make_soft_problem=True) if soft else {}
                    res = op.optimize(solver=solver, **kw) if solver else op.optimize(**kw)
            except Exception as e:
                chk.cnt['optimize_raised_' + type(e).__name__] += 1
                continue
            t = outcome(dict(p, bools=bools0), res, solver)
            t['soft'] = soft
            traces.append(t)
            meta.append(dict(check='solve_history', solver=str(solver), mip=True, classes=''.join(sorted({r['cls'] for r in p['rows']})), prog=k, dup=p['dup'],
                             call=pos, soft=soft))
    for k, p in [(k, p) for k, p in enumerate(progs) if not any(p['bools'])][seed % 4::4][:40 if tier == 'quick' else 400]:
        op = build_op(p)
        for pos, solver in enumerate(['SCIPY', None, 'SCIPY']):
            chk.cnt['eval_optimize_calls'] += 1
            chk.cnt['eval_history_calls'] += 1
            try:
                with quiet():
                    res = op.optimize(solver=solver) if solver else op.optimize()
            except Exception as e:
                chk.cnt['optimize_raised_' + type(e).__name__] += 1
                continue
            traces.append(outcome(p, res, solver))
            meta.append(dict(check='solve_history', solver=str(solver), mip=False, classes=''.join(sorted({r['cls'] for r in p['rows']})), prog=k, dup=p['dup'], call=pos, soft=False))
    # split problems: value = sum, x = concatenation (programs paired in order)
    lp = [p for p in progs if not any(p['bools']) and p['n'] <= 3 and brute(p) is not None]
    for a, b in zip(lp[0::2], lp[1::2]):
        if len(traces) > 3000:
            break
        ops = [build_op(a), build_op(b)]
        mapping = pd.concat([ops[0].mapping, ops[1].mapping])
        sop = eao.optimization.SplitOptimProblem(ops, mapping)
        chk.cnt['eval_split_calls'] += 1
        try:
            with quiet():
                res = sop.optimize(solver='SCIPY')
        except Exception as e:
            # both interval programs are feasible: raising instead of returning the concatenated solution is no valid response
            chk.violation(dict(check='split_raises', error=type(e).__name__), 'SplitOptimProblem.optimize raised %s: %s on two feasible interval programs' % (type(e).__name__, e),
                          dict(programs=[a, b]))
            continue
        na, nb = a['n'], b['n']
        comb = dict(n=na + nb, c=a['c'] + b['c'], l=a['l'] + b['l'], u=a['u'] + b['u'], bools=a['bools'] + b['bools'], dup=0,
                    rows=[dict(a=r['a'] + [0] * nb, b=r['b'], cls=r['cls']) for r in a['rows']] +
                         [dict(a=[0] * na + r['a'], b=r['b'], cls=r['cls']) for r in b['rows']])
        traces.append(outcome(comb, res, 'SCIPY'))
        meta.append(dict(check='split_concat', solver='SCIPY', mip=False, classes='', prog=-1, dup=0))
    # split problems with boolean variables, solved exactly and relaxed (options given by keyword must reach every interval problem): the response
    # must satisfy the contract of the concatenated program / of its relaxation
    mp = [p for p in progs if any(p['bools']) and 'den' not in p and p['n'] <= 3 and p.get('maporder') is None and brute(p) is not None]
    mp = [p for p in mp if p.get('binding')] + [p for p in mp if not p.get('binding')]
    for a, b in list(zip(mp[0::2], mp[1::2]))[:12 if tier == 'quick' else 60]:
        for soft in (False, True):
            ops = [build_op(a), build_op(b)]
            sop = eao.optimization.SplitOptimProblem(ops, pd.concat([ops[0].mapping, ops[1].mapping]))
            chk.cnt['eval_split_calls'] += 1
            try:
                with quiet():
                    res = sop.optimize(solver='SCIPY', make_soft_problem=soft)
            except Exception as e:
                chk.violation(dict(check='split_raises', error=type(e).__name__, soft=soft), 'SplitOptimProblem.optimize raised %s: %s on two feasible interval programs' % (type(e).__name__, e),
                              dict(programs=[a, b]))
                continue
            na, nb = a['n'], b['n']
            comb = dict(n=na + nb, c=a['c'] + b['c'], l=a['l'] + b['l'], u=a['u'] + b['u'], bools=a['bools'] + b['bools'], dup=0,
                        rows=[dict(a=r['a'] + [0] * nb, b=r['b'], cls=r['cls']) for r in a['rows']] +
                             [dict(a=[0] * na + r['a'], b=r['b'], cls=r['cls']) for r in b['rows']])
            t = outcome(comb, res, 'SCIPY')
            t['soft'] = soft
            traces.append(t)
            meta.append(dict(check='split_concat', solver='SCIPY', mip=True, classes='', prog=-1, dup=0, soft=soft))
    # anti-vacuity: a corrupted copy of an accepted solution must be rejected
    n_real = len(traces)
    # (built independently of the implementation: a fixed program with its known optimum)
    p0 = dict(n=2, c=[1, -1], l=[0, 0], u=[1, 2], rows=[dict(a=[1, 1], b=2, cls='U')], bools=[False, False])
    firstsol = dict(p=p0, K=K, tol=2, vtol=10, kind='solution', x=[0, 2 * K], v=2 * K)
    traces.append(copy.deepcopy(firstsol))
    meta.append(dict(check='reference_response', solver='none', mip=False, classes='U', prog=-2, dup=0))
    n_real = len(traces)
    for mut in ('x', 'v', 'kind', 'subopt'):
        bad = copy.deepcopy(firstsol)
        if mut == 'x':
            bad['x'][0] += 3 * K
        elif mut == 'v':
            bad['v'] += 2 * K
        elif mut == 'kind':
            bad['kind'] = 'failure'
        else:
            bad['x'] = [0, K]
            bad['v'] = K
        traces.append(bad)
    # the relaxation is another program: the MIP optimum offered as "soft" response is sub-optimal, the relaxed optimum offered as MIP response breaks the flag
    p1 = dict(n=1, c=[-1], l=[0], u=[2], rows=[], bools=[True])
    traces.append(dict(p=p1, K=K, tol=2, vtol=10, kind='solution', x=[K], v=K, soft=True))
    traces.append(dict(p=p1, K=K, tol=2, vtol=10, kind='solution', x=[2 * K], v=2 * K, soft=False))
    verdicts, st = REC.validate_traces(traces, module='EAOSolve')
    chk.add_tlc(st)
    chk.traces += n_real
    if any(v[1] == 'accepted' for v in verdicts[n_real:]):
        raise tlc.MachineryError('anti-vacuity: a corrupted optimiser response was accepted: %s' % (verdicts[n_real:],))
    chk.notes['corrupted_responses_verdicts'] = [v[1] for v in verdicts[n_real:]]
    for t, sel, (line, v) in zip(traces, meta, verdicts):
        chk.cnt['response_' + t['kind']] += 1
        if v == 'accepted':
            chk.nontrivial((sel['prog'], sel['solver'], t['kind']))
        else:
            chk.violation(dict(sel, clause=v, kind=t['kind']), 'response "%s" of solver %s violates the contract: %s' % (t.get('text', t['kind']), sel['solver'], v),
                          dict(trace=t))
    chk.sample(dict(kind='recorded optimize() call', trace=traces[0], verdict=verdicts[0]))
    chk.sample(dict(kind='recorded optimize() call', trace=traces[len(traces) // 2], verdict=verdicts[len(traces) // 2]))
    chk.assumptions += ['programs with integral polytopes (interval rows, integer data) or integer variables only: optimality and infeasibility are decided exactly on the box lattice',
                        'ortools / CPLEX interfaces are not installed and not covered', 'a solver raising SolverError (non-MIP solver on a MIP) is neither a solution nor a failure report']
    return chk.finish(rule='tiny programs (2-4 variables): all subsets of 10 row templates up to size 4 (all containing the four row classes first), boolean flags '
                           'incl. non-0/1 bounds, duplicated mapping rows before/after, infeasible ones; x every installed solver; relaxed solves; call histories on one object; split concatenation; '
                           'non-trivial = distinct (program, solver, response kind) accepted', exhaustive=False)
