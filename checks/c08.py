"""C08 horizon and windows: an asset acts only inside its window clipped to the horizon; elements wholly outside the
horizon are inert; take periods partly outside are prorated by the covered duration."""
import copy

from harness import pipeline as P
from harness import realise as R
from harness.check import CheckRun
from harness.replay import Problem

from . import common, fam

RELAX = ['outside_window', 'cap', 'rate', 'min_take', 'max_take', 'end_level', 'balance']
OUTSIDE = ('before', 'touching_before', 'touching_after', 'after', 'empty', 'far_after')


def without(cfg):
    """the same configuration without the placed element (asset removed / take periods removed)"""
    c = copy.deepcopy(cfg)
    k = cfg['element_index']
    if cfg['element'].startswith('take_'):
        c['assets'][k]['takes'] = []
    else:
        del c['assets'][k]
    c['id'] = cfg['id'] + 10000
    return c


def others_projection(cfg, beh):
    k = cfg['element_index']
    drop = not cfg['element'].startswith('take_')
    return (tuple(tuple(tuple(lg) for i, lg in enumerate(st['legs']) if not (drop and i == k)) for st in beh['steps']), beh['val'])


def plant_placements(chk, seed):
    """Plant / CHP (not part of the reference model EAOModel) at every placement: outside the horizon it must be inert (same optimum as
    without it, no exception); inside, its reported dispatch is zero outside its window"""
    import datetime as dt

    import numpy as np
    from harness.realise import eao, quiet
    A = eao.assets
    S = dt.datetime(2021, 1, 4)
    H = dt.timedelta(hours=1)
    T = 6
    places = dict(before=(-5, -2), touching_before=(-3, 0), straddle_start=(-2, 3), inside=(1, 4), straddle_end=(4, 9), touching_after=(6, 9), after=(10, 12), covering=(-2, 9))
    for (pname, (a, b)), kind, pr in [(p, k, q) for p in places.items() for k in ('plant', 'chp', 'plant_fuel') for q in (0, 1)]:
        def build(with_it):
            n, h, g = A.Node('n'), A.Node('h'), A.Node('g')
            tg = A.Timegrid(S, S + T * H, freq='h')
            assets = [A.SimpleContract('m', n, price='p', min_cap=-3, max_cap=3)]
            kw = dict(name='x', min_cap=1, max_cap=2, extra_costs=1., min_runtime=2, start_costs=0.5, start=S + a * H, end=S + b * H)
            if kind == 'chp':
                assets.append(A.SimpleContract('hs', h, price='q', min_cap=-3, max_cap=0))
            if kind == 'plant_fuel':
                assets.append(A.SimpleContract('gas', g, price='q', min_cap=-9, max_cap=9))
            if with_it:
                if kind == 'plant':
                    assets.append(A.Plant(nodes=[n], **kw))
                elif kind == 'chp':
                    assets.append(A.CHPAsset(nodes=[n, h], max_share_heat=1., **kw))
                else:
                    assets.append(A.Plant(nodes=[n, g], fuel_efficiency=0.5, start_fuel=1., **kw))
            prices = {'p': np.array([[5., 1., 6., 2., 7., 1.], [1., 6., 1., 5., 2., 6.]][pr]), 'q': np.array([1.] * T)}
            return eao.portfolio.Portfolio(assets), prices, tg
        sel = dict(check='plant_placement', placement=pname, element=kind)
        chk.cnt['eval_plant_placements'] += 1
        try:
            pf, prices, tg = build(True)
            with quiet():
                op = pf.setup_optim_problem(prices, tg)
            st, v1, x1 = Problem(op).solve()
            pf0, prices0, tg0 = build(False)
            with quiet():
                op0 = pf0.setup_optim_problem(prices0, tg0)
            st0, v0, x0 = Problem(op0).solve()
        except Exception as e:
            chk.violation(dict(sel, check='setup_raises', error=type(e).__name__), 'set-up raised %s: %s' % (type(e).__name__, str(e)[:100]), dict(kind=kind, placement=pname))
            continue
        outside = pname in OUTSIDE
        if outside and (v1 is None or abs(v1 - v0) > 1e-7 * max(1, abs(v0))):
            chk.violation(dict(sel, check='pair_value'), 'optimum with the outside plant %s differs from the optimum without it %s' % (v1, v0), dict(kind=kind, placement=pname))
            continue
        if st == 'optimal':
            m = op.mapping
            rows = m[(m['asset'] == 'x') & (m['type'] == 'd')]
            lo, hi = max(a, 0), min(b, T)
            bad = [int(r.time_step) for i, r in rows.iterrows() if not (lo <= int(r.time_step) < hi) and abs(x1[int(i)]) > 1e-7]
            if bad or any(not (lo <= int(ts) < hi) for ts in rows['time_step']):
                chk.violation(dict(sel, check='dispatch_outside_window'), 'the plant has variables / dispatch outside its clipped window', dict(kind=kind, placement=pname))
                continue
        chk.nontrivial(('plant', kind, pname, pr))


def run(tier, seed):
    chk = CheckRun('C08', tier, seed)
    th = tier == 'thorough'
    fams = [('placement', fam.fam_placement(thorough=th)), ('take_placement', fam.fam_take_placement(thorough=th)),
            ('orders', [c for c in fam.fam_orders(thorough=th) if common.cfg_features(c)['order_outside'] or c['id'] % 5 == 0])]
    # assets with a coarser frequency of their own whose window ends inside the horizon, on and off a coarse boundary
    fams.append(('coarse_window', fam.renumber([c for c in fam.fam_coarse(thorough=th) if c['T'] >= 6])))
    # scaled assets whose own window (fixed costs per covered time) differs from the horizon and from the base asset's window
    sc = [c for c in fam.fam_scaled() if any('fws' in a and ((a['fws'], a['fwe']) != (a['ws'], a['we']) or a['fwe'] <= 1 or a['fws'] > c['T']) for a in c['assets'])]
    # (a third of them per seed in both tiers: the wide capacity ranges of the scaled families make them the largest enumerations here)
    fams.append(('scaled_window', fam.renumber(sc[seed % 3::3])))
    if th:
        fams.append(('placement_T4', fam.fam_placement(T=4)))
    for tag, cfgs in fams:
        def make_real(cfg):
            return R.Real(cfg, form=['col', 'dict'][(cfg['id'] + seed) % 2])
        # (near-misses of the T = 4 placements: a sixth of the configurations per seed -- the relaxed enumeration of all of them needs tens of GB)
        step = 4 if tier == 'quick' else (6 if tag == 'placement_T4' else 1)
        neg = [c for k, c in enumerate(cfgs) if k % step == (seed % step)]
        pos = common.spec_to_code(chk, cfgs, make_real, relax=RELAX, neg_cfgs=neg, tag=tag)
        common.code_to_spec(chk, cfgs, make_real, tag=tag)
        if tag in ('orders', 'coarse_window', 'scaled_window') or not pos:
            continue
        # ---- pairs with / without the element
        base = [without(c) for c in cfgs]
        pos0 = P.enumerate_family(base, name='MCbase')
        chk.add_tlc(pos0['stats'])
        for c, c0 in zip(cfgs, base):
            outside = c['placement'] in OUTSIDE
            b1 = pos['behs'].get(c['id'], [])
            b0 = pos0['behs'].get(c0['id'], [])
            sel = dict(check='pair', family=tag, placement=c['placement'], element=c['element'])
            sel.update(common.cfg_features(c))
            chk.cnt['eval_pairs'] += 1
            if outside:
                # specification level: the behaviours of the others are exactly those without the element
                s1 = {others_projection(c, b) for b in b1}
                s0 = {(tuple(tuple(tuple(lg) for lg in st['legs']) for st in b['steps']), b['val']) for b in b0}
                if s1 != s0:
                    chk.violation(dict(sel, check='spec_outside_inert'), 'specification: element outside the horizon changes the behaviours of the others',
                                  dict(cfg=c))
            # implementation level: optimum with == optimum without (outside), dispatch equal when the optimum is unique
            try:
                r1, r0 = make_real(c), make_real(c0)
                p1, p0 = Problem(r1.setup()), Problem(r0.setup())
            except Exception as e:
                chk.violation(dict(sel, check='setup_raises', error=type(e).__name__), 'set-up raised %s: %s' % (type(e).__name__, e), dict(cfg=c))
                continue
            v1, v0 = p1.solve()[1], p0.solve()[1]
            if outside and (v1 is None) != (v0 is None) or (outside and v1 is not None and abs(v1 - v0) > 1e-7 * max(1, abs(v0))):
                chk.violation(dict(sel, check='pair_value'), 'optimum with the outside element %s differs from the optimum without it %s' % (v1, v0),
                              dict(cfg=c))
            else:
                chk.nontrivial(('pair', tag, c['id']))
    plant_placements(chk, seed)
    # long horizons: windows and take periods placed around a horizon of 10 / 16 steps, random walks of the specification replayed
    common.long_horizon(chk, tier, seed, [('placement', fam.fam_placement), ('take_placement', lambda T: fam.fam_take_placement(T=T, thorough=False))], RELAX)
    chk.assumptions += ['windows and take periods on step / tick lattices around a 3-step horizon (4 in the thorough tier)']
    return chk.finish(rule='every asset kind x every placement of its window (before, touching, straddling, inside, empty, after, covering); take periods '
                           'x placements x min/max x contract/transport; order lists with outside orders; with/without pairs', exhaustive=True)
