"""C14 split optimisation: value = sum of interval optima, dispatch valid on the ORIGINAL grid, equal to the unsplit
optimum when nothing couples the intervals, never above it when only storages with start = end level couple them."""
import copy

import numpy as np

from harness import pipeline as P
from harness import realise as R
from harness import record as REC
from harness.check import CheckRun
from harness.replay import Problem

from . import common, fam

RELAX = ['cap', 'rate', 'level_lo', 'level_hi', 'end_level', 'min_take', 'max_take', 'outside_window', 'balance']


class SplitReal(R.Real):
    def setup(self, **kw):
        return self.setup_split(self.cfg['interval'])


def run(tier, seed):
    chk = CheckRun('C14', tier, seed)
    th = tier == 'thorough'
    fams = [('split', fam.fam_split(thorough=th), ('h',)), ('split_discount', fam.fam_split_discount(), ('h', 'd')), ('split_single_interval', fam.fam_split_single(), ('h',)),
            ('split_unaligned', fam.fam_split_unaligned(), ('h',))]
    if th:
        fams.append(('split_mtu', [c for c in fam.fam_split() if c['coupling'] in ('none', 'takes')], ('d', 'min')))
    for tag, cfgs, mtus in fams:
        def make_real(cfg):
            return [SplitReal(cfg, mtu=m) for m in mtus]
        step = 3 if tier == 'quick' else 1
        neg = [c for k, c in enumerate(cfgs) if k % step == (seed % step)]
        # (a) TLC: behaviours of the split model (invariant SplitRefinesUnsplit checked in every state), replayed
        pos = common.spec_to_code(chk, cfgs, make_real, relax=RELAX, neg_cfgs=neg, tag=tag)
        if not pos:
            continue
        # (b) the split run itself, validated against the split model on the original grid
        for m in mtus:
            common.code_to_spec(chk, cfgs, lambda c, m=m: SplitReal(c, mtu=m), tag=tag, split='cfg', chk_fields=('chdis',))
        # (c)/(d) value = sum of interval optima; relation to the unsplit optimum
        for cfg in cfgs:
            for m in mtus:
                sel = dict(check='split_vs_unsplit', family=tag, coupling=cfg['coupling'], mtu=m, interval=cfg['interval'])
                sel.update(common.cfg_features(cfg))
                chk.cnt['eval_split_pairs'] += 1
                try:
                    rs = SplitReal(cfg, mtu=m)
                    ops = rs.setup()
                    with R.quiet():
                        res = ops.optimize(solver='SCIPY')
                    parts = [Problem(o).solve()[1] for o in ops.ops]
                    c0 = copy.deepcopy(cfg)
                    c0['split'] = set()
                    ru = R.Real(c0, mtu=m)
                    vu = Problem(ru.setup()).solve()[1]
                except Exception as e:
                    chk.violation(dict(sel, check='pipeline_raises', error=type(e).__name__), 'split pipeline raised %s: %s' % (type(e).__name__, e), dict(cfg=cfg))
                    continue
                # options given to the split problem must reach every interval problem: the relaxed solve (make_soft_problem) returns the sum of the
                # relaxed interval optima (judged where booleans exist: order books with full execution)
                if any(a['kind'] == 'orderbook' and a['fullexec'] for a in cfg['assets']):
                    chk.cnt['eval_split_relaxed'] += 1
                    try:
                        with R.quiet():
                            rsoft = ops.optimize(solver='SCIPY', make_soft_problem=True)
                        rel = []
                        for o in ops.ops:
                            pr_ = Problem(o)
                            pr_.integrality = pr_.integrality * 0
                            rel.append(pr_.solve()[1])
                        if isinstance(rsoft, str) or any(v is None for v in rel):
                            chk.cnt['split_relaxed_infeasible'] += 1
                        elif abs(float(rsoft.value) - sum(rel)) > 1e-6 * max(1, abs(sum(rel))):
                            chk.violation(dict(sel, check='split_relaxed_value_sum'), 'relaxed split value %.9g is not the sum of the relaxed interval optima %.9g' % (float(rsoft.value), sum(rel)),
                                          dict(cfg=cfg))
                    except Exception as e:
                        chk.violation(dict(sel, check='pipeline_raises', error=type(e).__name__, option='make_soft_problem'), 'relaxed split solve raised %s: %s' % (type(e).__name__, e), dict(cfg=cfg))
                if isinstance(res, str) or any(p is None for p in parts) or vu is None:
                    chk.cnt['split_infeasible'] += 1
                    continue
                vs = float(res.value)
                if abs(vs - sum(parts)) > 1e-6 * max(1, abs(vs)):
                    chk.violation(dict(sel, check='split_value_sum'), 'split value %.9g is not the sum of the interval optima %.9g' % (vs, sum(parts)), dict(cfg=cfg))
                lat = max(b['val'] for b in pos['behs'][cfg['id']]) / (cfg['DEN'] * cfg['VS']) if pos['behs'].get(cfg['id']) else None
                if cfg['coupling'] == 'none' and abs(vs - vu) > 1e-6 * max(1, abs(vu)):
                    chk.violation(dict(sel, check='split_equals_unsplit'), 'nothing couples the intervals but split value %.9g differs from unsplit %.9g' % (vs, vu), dict(cfg=cfg))
                elif cfg['coupling'] == 'storage_start_eq_end' and vs > vu + 1e-6 * max(1, abs(vu)):
                    chk.violation(dict(sel, check='split_le_unsplit'), 'split value %.9g exceeds the unsplit optimum %.9g' % (vs, vu), dict(cfg=cfg))
                else:
                    chk.nontrivial(('pair', tag, cfg['id'], m))
    chk.assumptions += ['intervals of 2 or 3 steps on hourly grids with 4..6 steps; one-year steps for discounting']
    return chk.finish(rule='split families: uncoupled (contracts, transport, windows leaving an interval empty), storages with start=end level, '
                           'storages with start#end and take periods across intervals (conformance of the split model only), discounting across intervals; '
                           'aligned and non-aligned horizons', exhaustive=True)
