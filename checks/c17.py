"""C17 stochastic and robust problems respect their defining bounds."""
import collections
import copy
import itertools
import re
import shutil

import numpy as np

from harness import families as F
from harness import pipeline as P
from harness import realise as R
from harness import tlc
from harness.check import CheckRun
from harness.families import tla_cfg
from harness.realise import eao, quiet
from harness.replay import Problem

from . import fam


def scenario_cfgs(tier):
    """configurations with scenario prices on the first contract; returns list of cfg (with 'scen', 'stage')"""
    out = []
    cid = 0
    th = tier == 'thorough'
    T = 3
    base_prices = [2, 4, 3]
    futures = [([2, 4, 3], [2, 1, 6]), ([2, 4, 3], [2, 6, 1], [2, 2, 2]), ([2, 4, 3], [2, 4, 3])]       # last: coinciding scenarios
    for stage, scen, variant in itertools.product((2, 3), futures, ('storage', 'storage_eff', 'transport')):
        # scenarios share the prices of the present steps 1..stage-1
        sc = [list(base_prices[:stage - 1]) + list(s[stage - 1:]) for s in scen]
        a0 = F.contract(T, 'n1', -2, 2, sc[0])
        if variant == 'storage':
            assets = [a0, F.storage(T, 'n1', size=2, cin=1, cout=1), F.contract(T, 'n1', -3, 3, 3)]
        elif variant == 'storage_eff':
            assets = [a0, F.storage(T, 'n1', size=2, cin=2, cout=1, eff=(1, 2), costin=1, start=1, end=1), F.contract(T, 'n1', -3, 3, 3)]
        else:
            assets = [a0, F.transport(T, 'n1', 'n2', 0, 2, cost=1), F.contract(T, 'n1', -3, 3, 3), F.contract(T, 'n2', -2, 2, [5, 1, 4]),
                      F.storage(T, 'n2', size=1, cin=1, cout=1)]
        cid += 1
        c = F.make_cfg(cid, T, assets, stage=stage, scen=[[s] + [[] for _ in assets[1:]] for s in sc], variant=variant,
                       coincide=all(s == sc[0] for s in sc))
        out.append(c)
    if not th:
        out = [c for c in out if not (c['variant'] == 'transport' and len(c['scen']) == 3)]
    # assets with a coarser frequency of their own whose coarse step STRADDLES the boundary (both start one step before the horizon, so the
    # coarse steps are {1}, {2,3}, {4} and the future begins at step 3): the decision for steps 2-3 is a present decision, common to all
    # scenarios.  The scenarios share the prices of every step a present variable covers (steps 1..3) and differ in step 4 only.
    T4 = 4
    grp = [1, 2, 2, 3]
    for scen in ([[2, 2, 2, 6], [2, 2, 2, 1]], [[2, 2, 2, 5], [2, 2, 2, 1], [2, 2, 2, 3]]):
        a0 = F.contract(T4, 'n1', -2, 2, scen[0], group=grp, freq='2h', ws=0)
        sto = F.storage(T4, 'n1', size=2, cin=1, cout=2, group=grp, freq='2h', ws=0)
        cid += 1
        out.append(F.make_cfg(cid, T4, [a0, sto], stage=3, scen=[[s, []] for s in scen], variant='coarse_straddle', coincide=False))
    return out


def tla_scen_cfg(c):
    d = tla_cfg(c)
    d['stage'] = c['stage']
    d['scen'] = c['scen']
    return d


def run_scenario_tlc(cfgs, mode):
    wd = tlc.scratch()
    try:
        defs = {'MCConfigs': '{' + ',\n   '.join(tlc.tla(tla_scen_cfg(c)) for c in cfgs) + '}'}
        lines = ['SPECIFICATION Spec', 'CONSTANT Configs <- MCConfigs', 'CONSTANT Mode = "%s"' % mode, 'CONSTRAINT Emit', 'CHECK_DEADLOCK FALSE',
                 'INVARIANT PresentShared', 'INVARIANT PresentCommon']
        tlc.write_mc(wd, 'MCscen', 'EAOScenario', defs, lines)
        r = tlc.run_tlc(wd, 'MCscen', tags=(), json_payload=False, timeout=3000)
        res = collections.defaultdict(list)
        if mode == 'slp':
            import json
            for line in r['out'].splitlines():
                if line.startswith('<<"FUT", '):
                    rec = json.loads(json.loads(line[len('<<"FUT", '):-2]))
                    res[rec['id']].append(rec)
        else:
            for m in re.finditer(r'<<"ROB", (\d+), <<([-\d, ]+)>>>>', r['out']):
                res[int(m.group(1))].append(tuple(int(x) for x in m.group(2).split(',')))
        return res, dict(generated=r['generated'], distinct=r['distinct'], violated=r['violated'])
    finally:
        shutil.rmtree(wd, ignore_errors=True)


def cost_samples_fit(chk, seed):
    """robust and stochastic problems are built from create_cost_samples: for the prices of the problem itself the sampled cost vector must be
    the problem's own cost vector (same length, same entries) -- for every asset type"""
    from harness import zoo
    for z in zoo.ZOO:
        name, pf, pr, tg = z(seed)
        chk.cnt['eval_cost_samples'] += 1
        try:
            with quiet():
                op = pf.setup_optim_problem(pr, tg)
                name2, pf2, pr2, tg2 = z(seed)
                cs = pf2.create_cost_samples([pr2], tg2)
        except Exception as e:
            chk.violation(dict(check='cost_samples_raise', portfolio=name, error=type(e).__name__), 'create_cost_samples raised %s: %s' % (type(e).__name__, str(e)[:100]), dict(portfolio=name))
            continue
        c0 = np.asarray(op.c, float)
        c1 = np.asarray(cs[0], float)
        if c0.shape != c1.shape or not np.allclose(c0, c1, rtol=1e-12, atol=1e-12):
            chk.violation(dict(check='cost_samples_differ', portfolio=name, same_length=bool(c0.shape == c1.shape)),
                          'cost vector from create_cost_samples (%d entries) differs from the cost vector of the problem (%d entries)' % (len(c1), len(c0)), dict(portfolio=name))
        else:
            chk.nontrivial(('cost_samples', name))
        # a rolling run: the SAME sample dictionaries, their arrays updated in place, on the same portfolio and grid objects - the cost samples
        # must follow the content (they are what the scenario problem is built from)
        try:
            with quiet():
                for k_ in pr2:
                    pr2[k_] *= 2.0
                    pr2[k_] += 1.0
                cs2 = pf2.create_cost_samples([pr2], tg2)
                name3, pf3, pr3, tg3 = z(seed)
                want = pf3.setup_optim_problem({k_: np.asarray(v, float) * 2.0 + 1.0 for k_, v in pr3.items()}, tg3).c
        except Exception as e:
            chk.violation(dict(check='cost_samples_raise', portfolio=name, error=type(e).__name__, call='second'), 'second create_cost_samples raised %s: %s' % (type(e).__name__, str(e)[:100]),
                          dict(portfolio=name))
            continue
        c2 = np.asarray(cs2[0], float)
        want = np.asarray(want, float)
        if c2.shape != want.shape or not np.allclose(c2, want, rtol=1e-12, atol=1e-12):
            chk.violation(dict(check='cost_samples_stale', portfolio=name), 'cost samples of price arrays updated in place are not those of the updated prices', dict(portfolio=name))


def mip_scenarios(chk, tier, seed):
    """portfolios with unit-commitment / storage booleans in the future stage (not expressible in EAOScenario, which builds on the LP asset
    semantics): the defining bounds and the structure of the extended problem are checked on the implementation"""
    import datetime as dt
    A = eao.assets
    S0 = dt.datetime(2021, 1, 4)
    T = 6
    cases = []
    for stage, fut in itertools.product((2, 4), [([100., 0., 100., 0.], [0., 100., 0., 100.]), ([30., 60., 10., 80.], [80., 10., 60., 30.], [40., 40., 40., 40.])]):
        cases.append((stage, fut))
    for stage, fut in cases:
        present = [50., 20., 70., 10.][:stage]
        scen = [np.array(present + list(f)[:T - stage] + [50.] * max(0, T - stage - len(f))) for f in fut]
        NS = len(scen)

        def build(variant):
            n = A.Node('n')
            tg = A.Timegrid(S0, S0 + dt.timedelta(days=T), freq='d')
            if variant == 'plant':
                x = A.Plant(name='plant', nodes=[n], min_cap=8. / 24, max_cap=10. / 24, extra_costs=50., start_costs=20., min_runtime=24)
            else:
                x = A.Storage('sto', n, size=10., cap_in=5. / 24, cap_out=5. / 24, eff_in=0.8, no_simult_in_out=True)
            pf = eao.portfolio.Portfolio([A.SimpleContract(name='market', nodes=n, price='p', min_cap=-20. / 24, max_cap=20. / 24), x])
            return pf, tg
        for variant in ('plant', 'storage_bool'):
            sel = dict(check='slp_mip', variant=variant, stage=stage, scenarios=NS)
            chk.cnt['eval_mip_scenarios'] += 1
            try:
                ws, sols, ops = [], [], []
                for k in range(NS):
                    pf, tg = build(variant)
                    with quiet():
                        op = pf.setup_optim_problem({'p': scen[k]}, tg)
                    ops.append(op)
                    st, v, x = Problem(op).solve()
                    ws.append(v)
                    sols.append(x)
                pf, tg = build(variant)
                with quiet():
                    op0 = pf.setup_optim_problem({'p': scen[0]}, tg)
                    n0 = len(op0.c)
                    f0 = op0.mapping[~op0.mapping.index.duplicated(keep='first')]
                    n_present = int((f0['time_step'] < stage).sum())
                    ext = eao.stoch_lin_prog.make_slp(op0, pf, tg, S0 + dt.timedelta(days=stage), [{'p': scen[k]} for k in range(1, NS)])
                    st, v, x = Problem(ext).solve()
            except Exception as e:
                chk.violation(dict(sel, check='pipeline_raises', error=type(e).__name__), 'SLP pipeline with booleans raised %s: %s' % (type(e).__name__, str(e)[:120]), dict(variant=variant))
                continue
            if st != 'optimal' or any(w is None for w in ws):
                chk.cnt['mip_scenario_infeasible'] += 1
                continue
            tol = 1e-6 * max(1, abs(v))
            if len(ext.c) != n_present + NS * (n0 - n_present):
                chk.violation(dict(sel, check='present_shared'), 'extended problem has %d variables, expected %d present + %d x %d future' % (len(ext.c), n_present, NS, n0 - n_present), dict(variant=variant))
            if v > sum(ws) / NS + tol:
                chk.violation(dict(sel, check='slp_le_ws'), 'SLP value %.9g exceeds the mean of the per-scenario optima %.9g' % (v, sum(ws) / NS), dict(variant=variant))
            mask = np.zeros(T, bool)
            mask[:stage] = True
            for k in range(NS):
                vals = []
                for k2 in range(NS):
                    pf2, tg2 = build(variant)
                    with quiet():
                        opf = pf2.setup_optim_problem({'p': scen[k2]}, tg2, fix_time_window={'I': mask.copy(), 'x': sols[k].copy()})
                    vals.append(Problem(opf).solve()[1])
                if any(q is None for q in vals):
                    continue
                eev = sum(vals) / NS
                chk.cnt['eval_eev_mip'] += 1
                if eev > v + tol:
                    chk.violation(dict(sel, check='eev_le_slp'), 'expected value %.9g of fixing the present to the solution of scenario %d exceeds the SLP value %.9g' % (eev, k, v), dict(variant=variant))
            chk.nontrivial(('mip_scen', variant, stage, NS))


def with_prices(c, k):
    """deterministic configuration under scenario k"""
    d = copy.deepcopy(c)
    for i, pv in enumerate(c['scen'][k]):
        if pv:
            d['assets'][i]['price'] = list(pv)
    return d


def run(tier, seed):
    chk = CheckRun('C17', tier, seed)
    cfgs = scenario_cfgs(tier)
    slp, st = run_scenario_tlc(cfgs, 'slp')
    chk.add_tlc(st)
    rob, st2 = run_scenario_tlc(cfgs, 'robust')
    chk.add_tlc(st2)
    for s_ in (st, st2):
        if s_['violated']:
            chk.violation(dict(check='spec_invariant', invariant=s_['violated']), 'TLC: invariant violated on EAOScenario', None)
            return chk.finish(rule='-')
    # deterministic lattice optima per scenario (wait-and-see)
    dets = []
    didx = {}
    for c in cfgs:
        for k in range(len(c['scen'])):
            d = with_prices(c, k)
            d['id'] = len(dets) + 1
            didx[(c['id'], k)] = d['id']
            dets.append(d)
    detbest, st3 = P.lattice_optima(dets)
    chk.add_tlc(st3)
    for c in cfgs:
        NS = len(c['scen'])
        scale = c['DEN'] * c['VS']
        sel = dict(check='slp', variant=c['variant'], stage=c['stage'], scenarios=NS, coincide=c['coincide'])
        # value of a present schedule = present value + mean over scenarios of the best future; SLP = best present schedule
        bypres = collections.defaultdict(lambda: [None, {}])
        for rec in slp[c['id']]:
            key = str(rec['pres'])
            bypres[key][0] = rec['pval']
            bypres[key][1][rec['k']] = max(bypres[key][1].get(rec['k'], -10 ** 9), rec['fval'])
        cands = [pv + sum(f.values()) / NS for pv, f in bypres.values() if len(f) == NS]
        slp_lat = max(cands) / scale
        ws_lat = [detbest[didx[(c['id'], k)]] / scale for k in range(NS)]
        # ---- the defining chain on the MODEL (lattice values from TLC)
        chk.cnt['eval_model_chain'] += 1
        if slp_lat > sum(ws_lat) / NS + 1e-9:
            chk.violation(dict(sel, check='model_slp_le_ws'), 'model: SLP %.6g exceeds the mean of the per-scenario optima %.6g' % (slp_lat, sum(ws_lat) / NS), dict(cfg=c))
        if c['coincide'] and abs(slp_lat - ws_lat[0]) > 1e-9:
            chk.violation(dict(sel, check='model_coincide'), 'model: coinciding scenarios but SLP %.6g differs from the deterministic optimum %.6g' % (slp_lat, ws_lat[0]), dict(cfg=c))
        # ---- the implementation
        try:
            reals = [R.Real(with_prices(c, k)) for k in range(NS)]
            with quiet():
                ops = [r.setup() for r in reals]
            probs = [Problem(o) for o in ops]
            sols = [p.solve() for p in probs]
            ws = [s[1] for s in sols]
            r0 = R.Real(with_prices(c, 0))
            with quiet():
                op0 = r0.setup()
                samples = [dict(reals[k].prices) for k in range(1, NS)]
                start_future = r0.user_time(r0.step_time(c['stage']))
                ext = eao.stoch_lin_prog.make_slp(op0, r0.portfolio, r0.timegrid, start_future, samples)
                res = ext.optimize(solver='SCIPY')
        except Exception as e:
            chk.violation(dict(sel, check='pipeline_raises', error=type(e).__name__), 'SLP pipeline raised %s: %s' % (type(e).__name__, str(e)[:150]), dict(cfg=c))
            continue
        chk.cnt['eval_slp_runs'] += 1
        if isinstance(res, str):
            chk.violation(dict(sel, check='slp_status'), 'SLP optimisation reports "%s" although the model has behaviours' % res, dict(cfg=c))
            continue
        v = float(res.value)
        tol = 1e-6 * max(1, abs(v))
        if v > sum(ws) / NS + tol:
            chk.violation(dict(sel, check='slp_le_ws'), 'SLP value %.9g exceeds the mean of the per-scenario optima %.9g' % (v, sum(ws) / NS), dict(cfg=c))
        if c['coincide'] and abs(v - ws[0]) > tol:
            chk.violation(dict(sel, check='coincide'), 'all scenarios coincide but SLP value %.9g differs from the deterministic optimum %.9g' % (v, ws[0]), dict(cfg=c))
        xs = np.asarray(res.x, float)
        onlat = np.abs(xs - np.round(xs)).max() < 1e-6
        if v < slp_lat - tol or (onlat and v > slp_lat + tol):
            chk.violation(dict(sel, check='slp_vs_model'), 'SLP value %.9g differs from the model optimum %.9g' % (v, slp_lat), dict(cfg=c))
        # present-stage decisions are common: present variables occur once, future variables once per scenario
        m = ext.mapping
        slpcol = [col for col in m.columns if 'slp_step' in col][0]
        first = m[~m.index.duplicated(keep='first')]
        n_present = int(first[slpcol].isna().sum())
        m0 = ops[0].mapping
        f0 = m0[~m0.index.duplicated(keep='first')]
        want_present = int((f0['time_step'] < c['stage'] - 1).sum())
        n0 = len(ops[0].c)
        if n_present != want_present or len(ext.c) != want_present + NS * (n0 - want_present):
            chk.violation(dict(sel, check='present_shared'), 'extended problem: %d present variables (expected %d), %d variables in total (expected %d)' % (
                n_present, want_present, len(ext.c), want_present + NS * (n0 - want_present)), dict(cfg=c))
        # EEV: fix the present to each single-scenario solution, expectation over the scenarios
        T = c['T']
        mask = np.zeros(T, bool)
        mask[:c['stage'] - 1] = True
        for k in range(NS):
            if sols[k][0] != 'optimal':
                continue
            xk = sols[k][2]
            vals = []
            try:
                for k2 in range(NS):
                    rr = R.Real(with_prices(c, k2))
                    with quiet():
                        rr.build()
                        opf = rr.portfolio.setup_optim_problem(rr.prices, rr.timegrid, fix_time_window={'I': mask.copy(), 'x': xk.copy()})
                    vals.append(Problem(opf).solve()[1])
            except Exception as e:
                chk.violation(dict(sel, check='eev_raises', error=type(e).__name__), 'fixing the present raised %s: %s' % (type(e).__name__, str(e)[:100]), dict(cfg=c))
                break
            if any(x is None for x in vals):
                chk.cnt['eev_infeasible_for_other_scenario'] += 1
                continue
            eev = sum(vals) / NS
            chk.cnt['eval_eev'] += 1
            if eev > v + tol:
                chk.violation(dict(sel, check='eev_le_slp'), 'expected value %.9g of fixing the present to the solution of scenario %d exceeds the SLP value %.9g' % (eev, k, v), dict(cfg=c))
        # ---- robust
        try:
            r1 = R.Real(with_prices(c, 0))
            with quiet():
                op1 = r1.setup()
                cs = r1.portfolio.create_cost_samples([dict(reals[k].prices) for k in range(NS)], r1.timegrid)
                rres = op1.optimize(target='robust', samples=cs, solver='CLARABEL')
        except Exception as e:
            chk.violation(dict(sel, check='robust_raises', error=type(e).__name__), 'robust optimisation raised %s: %s' % (type(e).__name__, str(e)[:150]), dict(cfg=c))
            continue
        chk.cnt['eval_robust_runs'] += 1
        if isinstance(rres, str):
            chk.cnt['robust_' + rres.replace(' ', '_')] += 1
            continue
        xr = np.asarray(rres.x, float)
        why = probs[0].check_point(xr, tol=1e-5)
        if why:
            chk.violation(dict(sel, check='robust_infeasible'), 'robust solution violates the problem: %s' % why, dict(cfg=c))
            continue
        worst = min(float(-cc @ xr) for cc in cs)
        rtol = 1e-4 * max(1, abs(worst))
        for k in range(NS):
            if sols[k][0] == 'optimal':
                wk = min(float(-cc @ sols[k][2]) for cc in cs)
                if worst < wk - rtol:
                    chk.violation(dict(sel, check='robust_ge_single'), 'worst case %.9g of the robust solution is below the worst case %.9g of the solution of scenario %d' % (worst, wk, k), dict(cfg=c))
        if worst > min(ws) + rtol:
            chk.violation(dict(sel, check='robust_le_min_opt'), 'worst case %.9g of the robust solution exceeds the smallest per-scenario optimum %.9g' % (worst, min(ws)), dict(cfg=c))
        rob_lat = max(min(vv) for vv in rob[c['id']]) / scale
        if worst < rob_lat - rtol:
            chk.violation(dict(sel, check='robust_vs_model'), 'worst case %.9g of the robust solution is below the best worst case %.9g of a lattice schedule' % (worst, rob_lat), dict(cfg=c))
        chk.nontrivial(('scen', c['id']))
        chk.sample(dict(kind='scenario configuration with model and implementation values', cfg_id=c['id'], variant=c['variant'], stage=c['stage'], scenarios=c['scen'],
                        model_slp=slp_lat, impl_slp=v, per_scenario_optima=ws, robust_worst_case=worst, model_robust=rob_lat), limit=3)
    mip_scenarios(chk, tier, seed)
    cost_samples_fit(chk, seed)
    chk.traces = 0
    chk.assumptions += ['scenarios share the present prices (hypothesis of the property)', 'SLP equality with the model only where the returned x is on the lattice']
    return chk.finish(rule='scenario sets (2 and 3 scenarios, coinciding scenarios) x boundary position (after the first step / before the last step) x portfolios with '
                           'storage (with and without losses) and transport; EEV for every single-scenario solution; robust target', exhaustive=True,
                      extra=dict(traces_validated_against_impl=0))
