"""C11 JSON round trip preserves every asset and portfolio."""
import copy
import datetime as dt
import inspect
import json
import re
import shutil

import numpy as np
import pandas as pd

from harness import history as HY
from harness import tlc, zoo
from harness.check import CheckRun
from harness.realise import eao, quiet

A = eao.assets
S0 = zoo.START
H = dt.timedelta(hours=1)


def param_forms(seed):
    """(label, asset factory) : the same kinds of assets with parameters in every accepted form"""
    n1, n2 = A.Node('n1'), A.Node('n2')
    st = [S0 - 12 * H, S0 + 2 * H, S0 + 4 * H]        # (wide enough to cover the grid in every zone used)
    en = [S0 + 2 * H, S0 + 4 * H, S0 + 24 * H]
    out = []
    out.append(('contract_scalar', lambda: A.SimpleContract('c', n1, price='p1', min_cap=-1., max_cap=2., extra_costs=0.5)))
    out.append(('contract_dict_lists', lambda: A.Contract('c', n1, price='p1', min_cap={'start': list(st), 'end': list(en), 'values': [-1., -2., 0.]},
                                                           max_cap={'start': list(st), 'end': list(en), 'values': [1., 2., 3.]},
                                                           min_take={'start': [S0], 'end': [S0 + 6 * H], 'values': [-3.]})))
    out.append(('contract_dict_noend', lambda: A.SimpleContract('c', n1, price='p1', min_cap=-1., max_cap={'start': list(st), 'values': [1., 2., 3.]})))
    out.append(('contract_dict_numpy', lambda: A.SimpleContract('c', n1, price='p1', min_cap=-1.,
                                                                max_cap={'start': np.array(st), 'end': np.array(en), 'values': np.array([1., 2., 3.])})))
    # date arrays of other resolutions than nanoseconds (np.datetime64 days / seconds / minutes), in limits and in take periods
    out.append(('contract_dict_numpy_seconds', lambda: A.SimpleContract('c', n1, price='p1', min_cap=-1.,
                                                                        max_cap={'start': np.array(st, dtype='datetime64[s]'), 'end': np.array(en, dtype='datetime64[s]'),
                                                                                 'values': np.array([1., 2., 3.])})))
    out.append(('contract_take_numpy_days', lambda: A.Contract('c', n1, price='p1', min_cap=0., max_cap=2.,
                                                               max_take={'start': np.array(['2021-01-04'], dtype='datetime64[D]'), 'end': np.array(['2021-01-05'], dtype='datetime64[D]'),
                                                                         'values': np.array([3.])})))
    out.append(('transport_take_numpy_minutes', lambda: A.ExtendedTransport('t', [n1, n2], min_cap=0., max_cap=2., efficiency=0.5,
                                                                            min_take={'start': np.array([S0 + H], dtype='datetime64[m]'), 'end': np.array([S0 + 5 * H], dtype='datetime64[m]'),
                                                                                      'values': np.array([2.])})))
    out.append(('contract_dict_dateindex', lambda: A.SimpleContract('c', n1, price='p1', min_cap=-1.,
                                                                    max_cap={'start': pd.DatetimeIndex(st), 'end': pd.DatetimeIndex(en), 'values': np.array([1., 2., 3.])})))
    out.append(('contract_dict_tzaware', lambda: A.SimpleContract('c', n1, price='p1', min_cap=-1.,
                                                                  max_cap={'start': [pd.Timestamp(x, tz='CET') for x in st], 'end': [pd.Timestamp(x, tz='CET') for x in en],
                                                                           'values': [1., 2., 3.]})))
    out.append(('contract_window_tz', lambda: A.SimpleContract('c', n1, price='p1', min_cap=-1., max_cap=2., start=pd.Timestamp(S0 + H, tz='CET'), end=pd.Timestamp(S0 + 5 * H, tz='CET'))))
    for zone in ('UTC', 'Europe/London', 'America/New_York'):
        zl = zone.split('/')[-1]
        out.append(('contract_window_tz_' + zl, lambda zone=zone: A.SimpleContract('c', n1, price='p1', min_cap=-1., max_cap=2., start=pd.Timestamp(S0 + H, tz=zone),
                                                                                  end=pd.Timestamp(S0 + 5 * H, tz=zone))))
        out.append(('contract_dict_tzaware_' + zl, lambda zone=zone: A.SimpleContract('c', n1, price='p1', min_cap=-1.,
                                                                                     max_cap={'start': [pd.Timestamp(x, tz=zone) for x in st], 'end': [pd.Timestamp(x, tz=zone) for x in en],
                                                                                              'values': [1., 2., 3.]})))
    out.append(('contract_window_date', lambda: A.SimpleContract('c', n1, price='p1', min_cap=-1., max_cap=2., start=dt.date(2021, 1, 4), end=dt.date(2021, 1, 5))))
    out.append(('contract_cap_column', lambda: A.SimpleContract('c', n1, price='p1', min_cap='p2', max_cap='p3')))
    out.append(('transport_take', lambda: A.ExtendedTransport('t', [n1, n2], min_cap=0., max_cap=2., efficiency=0.5, costs_const=0.1,
                                                              max_take={'start': [S0], 'end': [S0 + 6 * H], 'values': [5.]})))
    out.append(('storage_full', lambda: A.Storage('s', [n1, n2], size=3., cap_in=1., cap_out=2., start_level=1., end_level=1., eff_in=0.5, cost_in=0.1, cost_out=0.2,
                                                  cost_store=0.05, inflow=0.25, block_size='3h', no_simult_in_out=True, max_store_duration=2.)))
    out.append(('orderbook', lambda: A.OrderBook('ob', n1, orders={'start': [pd.Timestamp(S0), pd.Timestamp(S0 + 2 * H)], 'end': [pd.Timestamp(S0 + 3 * H), pd.Timestamp(S0 + 5 * H)],
                                                                   'capa': [1., -2.], 'price': [2., 6.]}, full_exec=True)))
    out.append(('orderbook_dataframe', lambda: A.OrderBook('ob', n1, orders=pd.DataFrame({'start': [pd.Timestamp(S0), pd.Timestamp(S0 + 2 * H)],
                                                                                         'end': [pd.Timestamp(S0 + 3 * H), pd.Timestamp(S0 + 5 * H)], 'capa': [1., -2.], 'price': [2., 6.]}))))
    # instances with (nearly) every constructor parameter away from its default
    n3 = A.Node('n3')
    tk = lambda v: {'start': [S0], 'end': [S0 + 6 * H], 'values': [v]}
    out.append(('rich_simplecontract_periodic', lambda: A.SimpleContract('c', n1, start=S0 + H, end=S0 + 9 * H, wacc=0.1, price='p1', extra_costs=0.25, min_cap=-1., max_cap=2.,
                                                                         periodicity='2h', periodicity_duration='4h')))
    out.append(('rich_simplecontract_freq', lambda: A.SimpleContract('c', n1, wacc=0.1, price='p1', extra_costs=0.25, min_cap=-1., max_cap=2., freq='2h')))
    out.append(('rich_contract', lambda: A.Contract('c', n1, start=S0, end=S0 + 6 * H, wacc=0.05, price='p1', extra_costs=0.5, min_cap=-1., max_cap=3., min_take=tk(-2.), max_take=tk(6.),
                                                    periodicity='3h')))
    out.append(('rich_transport', lambda: A.Transport('t', [n1, n2], start=S0 + H, end=S0 + 6 * H, wacc=0.1, costs_const=0.2, costs_time_series='p2', min_cap=-1., max_cap=2., efficiency=0.75,
                                                      periodicity='2h', periodicity_duration='4h')))
    out.append(('rich_exttransport', lambda: A.ExtendedTransport('t', [n1, n2], wacc=0.1, costs_const=0.2, costs_time_series='p2', min_cap=0., max_cap=2., efficiency=0.75,
                                                                 min_take=tk(1.), max_take=tk(7.), freq='2h')))
    out.append(('rich_storage_periodic', lambda: A.Storage('s', n1, start=S0, end=S0 + 6 * H, wacc=0.1, size=3., cap_in=1., cap_out=2., start_level=1., end_level=1., cost_out=0.2, cost_in=0.1,
                                                           cost_store=0.05, eff_in=0.5, inflow=0.25, price='p1', periodicity='3h')))
    out.append(('rich_multicommodity', lambda: A.MultiCommodityContract('m', [n1, n2, n3], start=S0, end=S0 + 6 * H, wacc=0.1, price='p1', extra_costs=0.5, min_cap=0., max_cap=2.,
                                                                       min_take=tk(1.), max_take=tk(8.), factors_commodities=[1., 0.5, -2.])))
    chp = dict(start=S0, end=S0 + 6 * H, wacc=0.1, price='p1', extra_costs=0.25, min_cap=1., max_cap=4., min_take=tk(2.), max_take=tk(20.), ramp=2., start_costs=1.5, running_costs=0.5,
               min_runtime=2, time_already_running=1, min_downtime=2, time_already_off=0, last_dispatch=1., start_ramp_lower_bounds=[1., 2.], start_ramp_upper_bounds=[1.5, 2.5],
               shutdown_ramp_lower_bounds=[1.], shutdown_ramp_upper_bounds=[2.], ramp_freq='h')
    out.append(('rich_plant', lambda: A.Plant('pl', [n1, n3], start_fuel=1., fuel_efficiency=0.5, consumption_if_on=0.25, **chp)))
    out.append(('rich_chp', lambda: A.CHPAsset('chp', [n1, n2, n3], conversion_factor_power_heat=0.5, max_share_heat=0.75, start_fuel=1., fuel_efficiency=0.5, consumption_if_on=0.25,
                                               start_ramp_lower_bounds_heat=[0., 0.5], start_ramp_upper_bounds_heat=[0.5, 1.], shutdown_ramp_lower_bounds_heat=[0.], shutdown_ramp_upper_bounds_heat=[1.],
                                               **chp)))
    # a CHP asset declared without heat node by its constructor flag, with a fuel node (what Plant does internally, written by hand)
    out.append(('chp_no_heat_flag', lambda: A.CHPAsset('chp', [n1, n3], _no_heat=True, price='p1', extra_costs=0.25, min_cap=1., max_cap=4., start_costs=1.5, min_runtime=2,
                                                      time_already_off=1, start_fuel=1., fuel_efficiency=0.5, consumption_if_on=0.25)))
    out.append(('rich_chp_min_load', lambda: A.CHPAsset_with_min_load_costs(name='chp', nodes=[n1, n2], conversion_factor_power_heat=0.5, max_share_heat=0.75, min_load_threshhold=2., min_load_costs=0.75,
                                                                           **{k: v for k, v in chp.items() if not k.startswith(('start_ramp', 'shutdown_ramp', 'ramp_freq'))})))
    return out


def ctor_params(cls):
    import inspect
    out = {}
    for c in reversed(cls.__mro__):
        if '__init__' in c.__dict__:
            for n, p_ in inspect.signature(c.__init__).parameters.items():
                if n not in ('self', 'args', 'kwargs'):
                    out[n] = p_.default
    return out


def grids():
    return {'naive': lambda: zoo.grid(6), 'cet': lambda: zoo.grid(6, tz='CET')}


def setup_digest(obj, g):
    pr = zoo.prices_for(6, 3)
    pr['p3'] = pr['p3'] + 1.0
    pr['p2'] = -pr['p2']
    with quiet():
        return HY.digest(obj.setup_optim_problem(pr, g))


def descriptors():
    """class descriptors recorded from the running code: attribute keys stored by to_json in each lifecycle state vs constructor keywords"""
    out = []
    seen = set()
    for z in zoo.ZOO:
        name, pf, pr, tg = z(0)
        objs = list(pf.assets)
        for a in list(objs):
            if hasattr(a, 'portfolio'):
                objs += list(a.portfolio.assets)
            if hasattr(a, 'base_asset'):
                objs.append(a.base_asset)
        for state in ('fresh', 'setup', 'optimised'):
            if state == 'setup':
                with quiet():
                    op = pf.setup_optim_problem(pr, tg)
            if state == 'optimised':
                with quiet():
                    res = op.optimize()
                    if not isinstance(res, str):
                        eao.io.extract_output(pf, op, res)
            for a in objs:
                cls = type(a)
                if (cls.__name__, state) in seen:
                    continue
                seen.add((cls.__name__, state))
                stored = set(eao.serialization.json_serialize_objects(a).keys()) - {'__class__', 'asset_type'}
                sig = inspect.signature(cls.__init__)
                accepted = {k for k, p in sig.parameters.items() if k != 'self' and p.kind in (p.POSITIONAL_OR_KEYWORD, p.KEYWORD_ONLY)}
                kwargs = any(p.kind == p.VAR_KEYWORD for p in sig.parameters.values())
                required = {k for k, p in sig.parameters.items() if k != 'self' and p.kind in (p.POSITIONAL_OR_KEYWORD, p.KEYWORD_ONLY) and p.default is p.empty}
                if kwargs:
                    # **kwargs are handed to the parent constructor: accepted = union over the MRO, no free-form keywords
                    for base in cls.__mro__[1:]:
                        if base is object:
                            continue
                        bs = inspect.signature(base.__init__)
                        accepted |= {k for k, p in bs.parameters.items() if k != 'self' and p.kind in (p.POSITIONAL_OR_KEYWORD, p.KEYWORD_ONLY)}
                        if not any(p.kind == p.VAR_KEYWORD for p in bs.parameters.values()):
                            break
                    kwargs = False
                out.append(dict(cls=cls.__name__, state=state, stored=stored, accepted=accepted, required=required, kwargs=kwargs))
    return out


def run(tier, seed):
    chk = CheckRun('C11', tier, seed)
    th = tier == 'thorough'
    # ---- (1) class descriptors, decided by TLC
    desc = descriptors()
    g = zoo.grid(6, tz='CET')
    gstored = set(eao.serialization.json_serialize_objects(g).keys()) - {'__class__'}
    gneeded = {'start', 'end', 'freq', 'main_time_unit', 'timezone'}
    wd = tlc.scratch()
    try:
        defs = {'MCDesc': '{' + ',\n  '.join(tlc.tla(dict(cls=d['cls'], state=d['state'], stored=d['stored'], accepted=d['accepted'], required=d['required'], kwargs=d['kwargs'])) for d in desc) + '}',
                'MCGridStored': tlc.tla(gstored), 'MCGridNeeded': tlc.tla(gneeded)}
        lines = ['SPECIFICATION Spec', 'CONSTANT Descriptors <- MCDesc', 'CONSTANT GridStored <- MCGridStored', 'CONSTANT GridNeeded <- MCGridNeeded',
                 'CONSTRAINT Report', 'CHECK_DEADLOCK FALSE']
        tlc.write_mc(wd, 'MCserial', 'EAOSerial', defs, lines)
        r = tlc.run_tlc(wd, 'MCserial', workers=1, tags=(), json_payload=False)
        chk.add_tlc(dict(generated=r['generated'], distinct=r['distinct']))
        bad = set()
        for cls_, st_, n_ in re.findall(r'<<"UNLOADABLE", "(\w+)", "(\w+)", (\d+)>>', r['out']):
            d_ = next(x for x in desc if x['cls'] == cls_ and x['state'] == st_)
            bad.add((cls_, st_, str(sorted((d_['stored'] - d_['accepted']) | (d_['required'] - d_['stored'])))))
        # GridSurvives evaluated by TLC as an ASSUME-like check: run again with the invariant
        lines2 = [l for l in lines if not l.startswith('CONSTRAINT')] + ['INVARIANT GridSurvives']
        tlc.write_mc(wd, 'MCserial2', 'EAOSerial', defs, lines2)
        r2 = tlc.run_tlc(wd, 'MCserial2', workers=1, tags=(), json_payload=False)
        chk.add_tlc(dict(generated=r2['generated'], distinct=r2['distinct']))
    finally:
        shutil.rmtree(wd, ignore_errors=True)
    chk.cnt['eval_descriptors'] = len(desc)
    for cls, state, keys in sorted(bad):
        chk.violation(dict(check='descriptor', kind=cls, state=state), 'class %s saved in state "%s": stored keys its constructor does not accept / required keywords that are not stored: %s' % (cls, state, keys), dict(cls=cls, state=state, keys=keys))
    if r2['violated']:
        chk.violation(dict(check='grid_descriptor'), 'the time grid does not store all fields its points and zone depend on: stored %s, needed %s' % (sorted(gstored), sorted(gneeded)),
                      dict(stored=sorted(gstored)))
    # ---- (2) behavioural round trip: every asset of the zoo and every parameter form, in every lifecycle state
    items = []
    for z in zoo.ZOO:
        name, pf, pr, tg = z(seed)
        for i, a in enumerate(pf.assets):
            items.append(('zoo:%s:%s' % (name, type(a).__name__), (lambda z=z, i=i: z(seed)[1].assets[i]), (lambda z=z: z(seed)), i))
    # the parameters every asset has (own window, discount rate) set to non-default values on every zoo asset whose class accepts them
    def accepts(obj, kw):
        import inspect
        for cls in type(obj).__mro__:
            if '__init__' not in cls.__dict__:
                continue
            ps = inspect.signature(cls.__init__).parameters
            if kw in ps:
                return True
            if not any(p.kind in (p.VAR_KEYWORD, p.VAR_POSITIONAL) for p in ps.values()):
                return False
        return False

    def with_general(obj):
        if accepts(obj, 'start') and accepts(obj, 'end'):
            obj.start, obj.end = S0 + 1 * H, S0 + 5 * H
        if accepts(obj, 'wacc'):
            obj.wacc = 0.25
        return obj
    for z in zoo.ZOO:
        name, pf, pr, tg = z(seed)
        if tg.freq != 'h':
            continue
        for i, a in enumerate(pf.assets):
            if accepts(a, 'start') or accepts(a, 'wacc'):
                items.append(('zoowin:%s:%s' % (name, type(a).__name__), (lambda z=z, i=i: with_general(z(seed)[1].assets[i])), None, None))
    for label, factory in param_forms(seed):
        items.append(('form:' + label, factory, None, None))
    for label, factory, zf, idx in items:
        for state in ('fresh', 'setup'):
            sel = dict(check='round_trip', object=label.split(':')[1] if label.startswith('zoo') else label, kind=label.split(':')[-1], state=state)
            chk.cnt['eval_round_trips'] += 1
            try:
                obj = factory()
            except Exception as e:
                raise tlc.MachineryError('factory %s failed: %s' % (label, e))
            try:
                if state == 'setup':
                    if zf is not None:
                        name, pf, pr, tg = zf()
                        with quiet():
                            pf.setup_optim_problem(pr, tg)
                        obj = pf.assets[idx]
                    else:
                        setup_digest(obj, zoo.grid(6, tz='CET' if 'tz' in label else None))
            except Exception as e:
                chk.cnt['pre_setup_not_possible'] += 1
                continue
            try:
                with quiet():
                    s = eao.serialization.to_json(obj)
            except Exception as e:
                chk.violation(dict(sel, step='save', error=type(e).__name__), 'to_json raised %s: %s' % (type(e).__name__, str(e)[:100]), dict(object=label))
                continue
            try:
                with quiet():
                    obj2 = eao.serialization.load_from_json(s)
            except Exception as e:
                chk.violation(dict(sel, step='load', error=type(e).__name__), 'load_from_json raised %s: %s' % (type(e).__name__, str(e)[:100]), dict(object=label))
                continue
            try:
                with quiet():
                    s2 = eao.serialization.to_json(obj2)
                if json.loads(s2) != json.loads(s):
                    chk.violation(dict(sel, step='resave'), 'saving the loaded object gives another JSON', dict(object=label))
                    continue
            except Exception as e:
                chk.violation(dict(sel, step='resave', error=type(e).__name__), 're-saving raised %s' % type(e).__name__, dict(object=label))
                continue
            ok = True
            # every constructor parameter the object carries as an attribute has the same value after the round trip
            norm = lambda v: json.loads(eao.serialization.to_json(v))
            for pn in ctor_params(type(obj)):
                if not hasattr(obj, pn):
                    continue
                try:
                    same = hasattr(obj2, pn) and norm(getattr(obj, pn)) == norm(getattr(obj2, pn))
                except Exception:
                    continue
                chk.cnt['eval_parameters_compared'] += 1
                if not same:
                    chk.violation(dict(sel, step='parameter_lost', parameter=pn), 'parameter %s = %r of the original is %r after the round trip' % (
                        pn, getattr(obj, pn), getattr(obj2, pn, '<missing>')), dict(object=label, parameter=pn))
                    ok = False
            for gname, gf in grids().items():
                if label.startswith('zoo') and gname == 'cet':
                    continue
                if 'tz' in label and gname == 'naive':
                    continue         # zone-aware parameters with a naive grid are outside the documented use
                try:
                    d0 = setup_digest(factory(), gf())
                except Exception:
                    continue         # the original cannot be set up on this grid either: nothing to preserve
                try:
                    d2 = setup_digest(obj2, gf())
                except Exception as e:
                    chk.violation(dict(sel, step='setup_loaded', grid=gname, error=type(e).__name__), 'the loaded object cannot be set up (%s: %s) although the original can' % (
                        type(e).__name__, str(e)[:80]), dict(object=label))
                    ok = False
                    continue
                if d0 != d2:
                    chk.violation(dict(sel, step='problem_differs', grid=gname), 'the loaded object produces another problem than the original', dict(object=label))
                    ok = False
            if ok:
                chk.nontrivial((label, state))
    # ---- (3) portfolios with their own time grid
    for z in zoo.ZOO:
        # (the last two: the SAME instants as the UTC grids, given in another zone -- grids read earlier in the same process must not matter)
        for tz in (None, 'CET', 'UTC', 'aware_utc', 'same_instants_CET', 'same_instants_America/New_York'):
            name, pf, pr, tg = z(seed)
            if tz == 'aware_utc':      # grid given by zone-aware start / end, no explicit zone
                if tg.freq != 'h':
                    continue
                tgz = A.Timegrid(pd.Timestamp(S0, tz='UTC'), pd.Timestamp(S0 + tg.T * H, tz='UTC'), freq='h')
            elif tz.startswith('same_instants_') if tz else False:
                if tg.freq != 'h':
                    continue
                zn = tz[len('same_instants_'):]
                tgz = A.Timegrid(pd.Timestamp(S0, tz='UTC').tz_convert(zn), pd.Timestamp(S0 + tg.T * H, tz='UTC').tz_convert(zn), freq='h')
            else:
                tgz = zoo.grid(tg.T, tz=tz) if tg.freq == 'h' else tg
            pf.set_timegrid(tgz)
            sel = dict(check='portfolio_round_trip', portfolio=name, zone=str(tz), kind='LinkedAsset' if name == 'linked' else 'other')
            chk.cnt['eval_portfolio_round_trips'] += 1
            try:
                with quiet():
                    op0 = pf.setup_optim_problem(pr)
                    v0 = HY.digest(op0)
            except Exception:
                continue
            try:
                with quiet():
                    s = eao.serialization.to_json(pf)
                    pf2 = eao.serialization.load_from_json(s)
            except Exception as e:
                chk.violation(dict(sel, step='save_load', error=type(e).__name__), 'portfolio save/load raised %s: %s' % (type(e).__name__, str(e)[:100]), dict(portfolio=name))
                continue
            g2 = getattr(pf2, 'timegrid', None)
            # (time stamps compare equal across zones: the zone of the points is compared on its own, and the local wall-clock times as text)
            if g2 is None or list(g2.timepoints) != list(tgz.timepoints) or str(g2.tz) != str(tgz.tz) \
                    or str(getattr(g2.timepoints, 'tz', None)) != str(getattr(tgz.timepoints, 'tz', None)) or [str(t) for t in g2.timepoints] != [str(t) for t in tgz.timepoints]:
                chk.violation(dict(sel, step='grid_survives'), 'the time grid of the loaded portfolio differs (points or zone): zone %s vs %s' % (getattr(g2, 'tz', None), tgz.tz), dict(portfolio=name))
                continue
            try:
                with quiet():
                    v2 = HY.digest(pf2.setup_optim_problem(pr))
                if v2 != v0:
                    chk.violation(dict(sel, step='problem_differs'), 'the loaded portfolio produces another problem', dict(portfolio=name))
                else:
                    chk.nontrivial(('portfolio', name, tz))
            except Exception as e:
                chk.violation(dict(sel, step='setup_loaded', error=type(e).__name__), 'the loaded portfolio cannot be set up: %s: %s' % (type(e).__name__, str(e)[:100]), dict(portfolio=name))
    # ---- (4) the parameter tree (io.get_params_tree / get_param / set_param = edit of the saved tree + load; EAOSerial.SetParam)
    def walk(tree, path):
        for k in path:
            tree = tree[k]
        return tree
    rnd = __import__('random').Random(seed)
    for z in zoo.ZOO:
        name, pf, pr, tg = z(seed)
        for obj in list(pf.assets) + [pf]:
            kind = type(obj).__name__
            label = '%s:%s' % (name, kind)
            sel = dict(check='param_tree', object=name, kind='LinkedAsset' if (kind == 'LinkedAsset' or (kind == 'Portfolio' and name == 'linked')) else kind)
            try:
                with quiet():
                    keys, tree = eao.io.get_params_tree(obj)
                    s0 = json.loads(eao.serialization.to_json(obj))
            except Exception as e:
                chk.violation(dict(sel, step='tree', error=type(e).__name__), 'get_params_tree raised %s: %s' % (type(e).__name__, str(e)[:100]), dict(object=label))
                continue
            paths = [k if isinstance(k, list) else [k] for k in keys]
            rnd.shuffle(paths)
            ok = True
            for path in paths[:12 if tier == 'quick' else 60]:
                chk.cnt['eval_param_paths'] += 1
                try:
                    with quiet():
                        v = eao.io.get_param(obj, path)
                    if json.dumps(v, sort_keys=True, default=str) != json.dumps(walk(tree, path), sort_keys=True, default=str):
                        chk.violation(dict(sel, step='get_param'), 'get_param%s differs from the parameter tree' % (path,), dict(object=label, path=path))
                        ok = False
                        continue
                    with quiet():
                        obj2 = eao.io.set_param(obj, path, v)
                        s2 = json.loads(eao.serialization.to_json(obj2))
                        s1 = json.loads(eao.serialization.to_json(obj))
                except Exception as e:
                    chk.violation(dict(sel, step='set_param', error=type(e).__name__), 'set_param%s with the value it already has raised %s: %s' % (path, type(e).__name__, str(e)[:100]),
                                  dict(object=label, path=path))
                    ok = False
                    continue
                if s1 != s0:
                    chk.violation(dict(sel, step='set_param_mutates'), 'set_param%s changed the object it was given' % (path,), dict(object=label, path=path))
                    ok = False
                if s2 != s0:
                    chk.violation(dict(sel, step='set_param_identity'), 'set_param%s with the value the leaf already has gives another object' % (path,), dict(object=label, path=path))
                    ok = False
            if ok:
                chk.nontrivial(('param_tree', label))
    chk.traces = 0
    chk.sample(dict(kind='class descriptor evaluated by TLC', descriptor={k: (sorted(v) if isinstance(v, set) else v) for k, v in desc[0].items()}))
    chk.sample(dict(kind='round trip', object=items[0][0]))
    chk.assumptions += ['zone-aware parameter dates are used with zone-aware grids only']
    return chk.finish(rule='class descriptors of every asset class of the zoo in the lifecycle states fresh / after set-up / after optimise (TLC: stored keys within accepted keywords; '
                           'grid fields); behavioural round trip (save, load, re-save, set-up on naive and CET grids) of every zoo asset and 13 parameter forms in two lifecycle states; '
                           'portfolios with naive / CET grids', exhaustive=False, extra=dict(traces_validated_against_impl=0))
