"""C16 scaled and structured assets are equivalent to what they wrap."""
import collections
import copy

from harness import pipeline as P
from harness import realise as R
from harness.check import CheckRun
from harness.replay import Problem

from . import common, fam

RELAX = ['cap', 'rate', 'level_lo', 'level_hi', 'end_level', 'balance', 'outside_window']


def flat_cfg(cfg):
    """the same configuration realised without wrapper (inner assets carry the clipped windows themselves)"""
    c = copy.deepcopy(cfg)
    for a in c['assets']:
        a.pop('rws', None)
        a.pop('rwe', None)
    c.pop('struct_window', None)
    return c


def run(tier, seed):
    chk = CheckRun('C16', tier, seed)
    th = tier == 'thorough'

    def hook(sel, cfg):
        sel['variant'] = cfg.get('variant')
        sel['scale'] = str(cfg.get('scale'))
    # ---- scaled at a fixed scale: ScaledAsset(base, min=max=s) must conform to the behaviours of the asset AT that scale
    cfgs = fam.fam_scaled(thorough=th)
    common.spec_to_code(chk, cfgs, lambda c: R.Real(c), relax=RELAX, neg_cfgs=cfgs[seed % 3::3] if not th else cfgs, tag='scaled', sel_hook=hook)
    common.code_to_spec(chk, cfgs, lambda c: R.Real(c), tag='scaled', chk_fields=(), sel_hook=hook)
    # ---- free scale: optimum = best over the allowed range (value linear in the scale: best end point)
    fcfgs = fam.fam_free_scale()
    pos = P.enumerate_family(fcfgs, name='MCfree')
    chk.add_tlc(pos['stats'])
    groups = collections.defaultdict(list)
    for c in fcfgs:
        groups[c['group']].append(c)
    for g, cs in groups.items():
        lat = {c['scale'][0]: max(b['val'] for b in pos['behs'][c['id']]) / (c['DEN'] * c['VS']) for c in cs if pos['behs'].get(c['id'])}
        chk.cnt['eval_free_scale'] += 1
        try:
            real = R.Real(cs[0])
            op = real.setup()
            st, val, x = Problem(op).solve()
        except Exception as e:
            chk.violation(dict(check='setup_raises', family='free_scale', error=type(e).__name__), 'set-up raised %s: %s' % (type(e).__name__, e), dict(cfg=cs[0]))
            continue
        best = max(lat.values())
        if x is None:
            # the lattice of scales has feasible behaviours (TLC), so the problem with a free scale is feasible
            chk.violation(dict(check='free_scale_infeasible', family='free_scale', fix=cs[0]['scale'][2]),
                          'the problem with a free scale is %s although the fixed-scale problems have behaviours (best %.9g)' % (st, best), dict(cfgs=cs))
            continue
        m = op.mapping
        sidx = int(m.index[m['var_name'] == 'scale'][0])
        sc = x[sidx]
        sel = dict(check='free_scale', family='free_scale', fix=cs[0]['scale'][2])
        if val < best - 1e-6 * max(1, abs(best)):
            chk.violation(sel, 'optimum with free scale %.9g is below the best fixed-scale optimum %.9g' % (val, best), dict(cfgs=cs))
        elif abs(sc - round(sc)) < 1e-6 and int(round(sc)) in lat and abs(val - lat[int(round(sc))]) > 1e-6 * max(1, abs(val)):
            chk.violation(sel, 'optimum %.9g at scale %d differs from the fixed-scale optimum %.9g' % (val, round(sc), lat[int(round(sc))]), dict(cfgs=cs))
        elif abs(sc - round(sc)) < 1e-6 and val > best + 1e-6 * max(1, abs(best)):
            chk.violation(sel, 'optimum with free scale %.9g (at lattice scale) exceeds the best fixed-scale optimum %.9g' % (val, best), dict(cfgs=cs))
        else:
            chk.nontrivial(('free', g))
    # ---- structured: wrapped and flat realisations conform to the SAME TLC behaviours, same optimum
    scfgs = fam.fam_structured(thorough=th)

    def reals(cfg):
        # the third realisation re-uses asset objects that were wrapped (and set up) before in a structured asset with a narrower window
        r3 = R.Real(flat_cfg(cfg))
        r3.prewrap = (2, cfg['T'])
        # ... and the fourth wraps a Portfolio object that was set up on its own before
        r4 = R.Real(cfg, struct=cfg['struct'])
        r4.preflat = True
        return [R.Real(cfg, struct=cfg['struct']), R.Real(flat_cfg(cfg)), r3, r4]
    common.spec_to_code(chk, scfgs, reals, relax=RELAX, neg_cfgs=scfgs[seed % 2::2] if not th else scfgs, tag='structured')
    common.code_to_spec(chk, scfgs, lambda c: R.Real(flat_cfg(c)), tag='structured_flat', chk_fields=())
    for cfg in scfgs:
        chk.cnt['eval_struct_pairs'] += 1
        try:
            v1 = Problem(R.Real(cfg, struct=cfg['struct']).setup()).solve()[1]
            v0 = Problem(R.Real(flat_cfg(cfg)).setup()).solve()[1]
        except Exception as e:
            chk.violation(dict(check='setup_raises', family='structured', error=type(e).__name__), 'set-up raised %s: %s' % (type(e).__name__, e), dict(cfg=cfg))
            continue
        if (v1 is None) != (v0 is None) or (v1 is not None and abs(v1 - v0) > 1e-6 * max(1, abs(v0))):
            chk.violation(dict(check='structured_vs_flat', family='structured', window=str(cfg.get('struct_window'))),
                          'structured optimum %s differs from the flat optimum %s' % (v1, v0), dict(cfg=cfg))
        else:
            chk.nontrivial(('struct', cfg['id']))
    chk.assumptions += ['base assets without booleans; "active duration" of a scaled asset = its own window', 'free scale only on families where the value is linear in the scale']
    return chk.finish(rule='scaled: 5 base kinds x 4 (scale, norm, cost) x 2 windows at fixed scale; free scale on linear families (3 cost rates x 2 price sets); '
                           'structured: transport-storage-transport chain wrapped vs flat, with and without wrapper window', exhaustive=True)
