"""C10 building a problem is a pure function of parameters, prices and grid -- for all call histories on the same objects."""
import collections
import random

from harness import history as HY
from harness import tlc
from harness.check import CheckRun

ZONE = {'g1': 'naive', 'gs': 'naive', 'gz': 'cet', 'gf': 'naive'}


def histories(states, edges, init, tier, seed):
    """(history = list of (src state id, action, args, dst id), why selected)"""
    rnd = random.Random(seed)
    out_edges = collections.defaultdict(list)
    for e in edges:
        out_edges[e[0]].append(e)
    # shortest path (list of edges) to every state
    path = {init: []}
    queue = [init]
    while queue:
        s = queue.pop(0)
        for e in out_edges[s]:
            if e[1] not in path:
                path[e[1]] = path[s] + [e]
                queue.append(e[1])
    hs = []
    # (i) all histories of length <= 2
    for e1 in out_edges[init]:
        hs.append(([e1], 'depth1'))
        for e2 in out_edges[e1[1]]:
            hs.append(([e1, e2], 'depth2'))
    # (ii) one test per transition: shortest path to the source, then the transition
    deep = [e for e in edges if len(path.get(e[0], [])) >= 2]
    rnd.shuffle(deep)
    for e in (deep if tier == 'thorough' else deep[:450]):
        hs.append((path[e[0]] + [e], 'transition'))
    # (iii) random walks through the graph
    for _ in range(60 if tier == 'quick' else 400):
        s = init
        walk = []
        while out_edges[s]:
            e = rnd.choice(out_edges[s])
            walk.append(e)
            s = e[1]
        hs.append((walk, 'walk'))
    return hs


def leak_features(states, e):
    """what in the model state before the call could leak into it (for the violation selector / known findings)"""
    st = states[e[0]]
    action, args = e[2], e[3]
    f = dict(action=action)
    form = st.get('form', {}).get('a1', 'raw')
    g = None
    if action == 'CostSamples':
        g = args[0]
    elif action in ('AssetSetup', 'PortfolioSetup', 'PortfolioSplit'):
        g = args[-2]
    elif action == 'AssetSetupNoGrid':
        g = st['agrid'][args[0]]
        f['stale_window'] = g != 'none' and st['rest'].get(g) != args[0]
    elif action == 'PortfolioSetupNoGrid':
        g = st['pgrid']
    uses_a1 = action.startswith('Portfolio') or action == 'CostSamples' or (args and args[0] == 'a1')
    f['dict_localised_then_naive_grid'] = bool(uses_a1 and form == 'localised' and g not in (None, 'none') and ZONE[g] == 'naive')
    f['dict_form'] = form if uses_a1 else 'n/a'
    return f


def run(tier, seed):
    chk = CheckRun('C10', tier, seed)
    th = tier == 'thorough'
    grids = ['g1', 'gs', 'gz'] + (['gf'] if th else [])
    prices = ['p1'] + (['p2'] if th else [])
    depth = 3
    states, edges, init, st = HY.explore(['a1', 'a2', 'a3'], grids, ZONE, prices, ['a1'], 'a3', depth)
    chk.add_tlc(st)
    chk.notes['graph'] = dict(states=len(states), transitions=len(edges), depth=depth)
    hs = histories(states, edges, init, tier, seed)
    cache = {}
    diag = collections.Counter()
    covered = set()
    for dict_form in (('end', 'noend') if th else ('end',)):
        for walk, why in hs:
            U = HY.Universe(dict_form)
            last = None
            for k, e in enumerate(walk):
                src, dst, action, args = e
                stt = states[src]
                chk.cnt['eval_calls'] += 1
                if action.startswith('Portfolio'):
                    g = args[0] if action != 'PortfolioSetupNoGrid' else stt['pgrid']
                    last_next = (None, args[-1], g, 'split' if action == 'PortfolioSplit' else 'mono')
                else:
                    last_next = last
                key = (action, tuple(args), stt['agrid'].get(args[0]) if action == 'AssetSetupNoGrid' else None,
                       stt['pgrid'] if action == 'PortfolioSetupNoGrid' else None, last[1:] if (action == 'Optimize' and last) else None,
                       all(g == stt.get('pgrid') for g in stt['agrid'].values()) if action == 'Optimize' else None, dict_form)
                try:
                    if key not in cache:
                        cache[key] = HY.fresh(action, args, stt, last, dict_form)
                    want = cache[key]
                except tlc.MachineryError:
                    raise
                except Exception as ex:
                    # the call is not possible with these arguments at all (e.g. naive order dates on a zone-aware grid): the objects must
                    # fail the same way; the history ends here (a failed call may leave objects half set up, which the model does not describe)
                    cache[key] = ('raised', type(ex).__name__)
                    want = cache[key]
                try:
                    got = HY.perform(U, action, args, stt)
                except tlc.MachineryError:
                    raise
                except Exception as ex:
                    got = ('raised', type(ex).__name__, str(ex)[:100])
                if want[0] == 'raised':
                    chk.cnt['calls_impossible_for_fresh_objects_too'] += 1
                    if got[:2] != want[:2]:
                        chk.violation(dict(check='history', action=action, outcome='fresh_raises_but_objects_do_not'), 'fresh objects raise %s, the used objects %s' % (want[1], got[:2]),
                                      dict(history=[(x[2], x[3]) for x in walk[:k + 1]]))
                    break
                last = last_next
                covered.add((src, dst, action, tuple(args)))
                if got and got[0] == 'report_changes_when_repeated':
                    chk.violation(dict(check='history', action=action, outcome='report_changes_when_repeated', tables='|'.join(got[1])),
                                  'extract_output gives other %s tables when it is asked a second time for the same result' % got[1], dict(history=[(x[2], x[3]) for x in walk[:k + 1]]))
                    break
                if got != want:
                    sel = dict(check='history', position=min(k + 1, 3))
                    sel.update(leak_features(states, e))
                    sel['outcome'] = 'raises_' + got[1] if got[0] == 'raised' else 'differs'
                    hist_txt = ' ; '.join('%s(%s)' % (x[2], ','.join(x[3])) for x in walk[:k + 1])
                    chk.violation(sel, 'after the history [%s] the last call %s instead of returning what fresh objects return' % (
                        hist_txt, ('raises %s: %s' % (got[1], got[2])) if got[0] == 'raised' else 'returns a different problem'),
                        dict(history=[(x[2], x[3]) for x in walk[:k + 1]], dict_form=dict_form))
                    break
                # diagnostics: projected implementation state vs the model's post-state (never a violation)
                post = states[dst]
                for a in ('a1', 'a2', 'a3'):
                    tg = getattr(U.assets[a], 'timegrid', None)
                    impl = next((gk for gk, go in U.grids.items() if go is tg), 'none' if tg is None else 'other')
                    if impl != post['agrid'][a]:
                        diag['agrid_differs_from_model'] += 1
                changed = bool(U.dicts_changed())
                if changed != (post['form']['a1'] != 'raw'):
                    diag['dict_form_differs_from_model'] += 1
            else:
                chk.nontrivial(tuple((x[2], tuple(x[3])) for x in walk) + (dict_form,))
    chk.notes['state_projection_diagnostics'] = dict(diag)
    chk.notes['transitions_covered'] = len(covered)
    chk.cnt['histories'] = len(hs)
    chk.traces = len(hs)
    chk.sample(dict(kind='call history executed on real objects and compared call by call with fresh objects',
                    history=[(x[2], x[3]) for x in hs[len(hs) // 2][0]], selected_as=hs[len(hs) // 2][1]))
    chk.sample(dict(kind='call history', history=[(x[2], x[3]) for x in hs[-1][0]], selected_as=hs[-1][1]))
    chk.assumptions += ['universe: one portfolio (contract with interval-dictionary limits and a take period, storage, market), grids with another horizon / zone / frequency, price sets',
                        'a call without grid is specified to return what the same call WITH the grid the object refers to returns']
    return chk.finish(rule='TLC state graph of EAOHistory to depth %d; all histories of length <= 2, one history per sampled transition (shortest path + transition), '
                           'random walks; non-trivial = history whose every call returned what fresh objects return' % depth, exhaustive=False)
