"""C05 storage physics: level in [0,size], end level, rates, reported series, no-simultaneous, holding duration, blocks."""
from harness import realise as R
from harness.check import CheckRun

from . import common, fam

RELAX = ['rate', 'level_lo', 'level_hi', 'end_level', 'simult', 'hold', 'outside_window', 'balance']


def families(tier):
    th = tier == 'thorough'
    fs = [('storage', fam.fam_storage(thorough=th)), ('storage_mip', fam.fam_storage_mip(thorough=th)),
          ('storage_hold', fam.fam_storage_hold_T()), ('storage_hold_start', fam.fam_storage_hold_start()), ('storage_hold_dst', fam.fam_storage_hold_dst()), ('storage_burn', fam.fam_storage_burn()), ('storage_blocks', fam.fam_storage_blocks(thorough=th, inflow=(0, 1)))]
    # storages with a coarser frequency of their own (one and two variables per step), incl. windows reaching beyond the horizon so that the
    # first / last coarse step is cut by the horizon: level bounds, end level and the reported series on the fine grid
    fs.append(('storage_coarse', fam.renumber([c for c in fam.fam_coarse(thorough=th) if str(c.get('variant', '')).startswith('storage')])))
    if th:
        fs.append(('storage_T4', fam.fam_storage(T=4)))
        fs.append(('storage_T5_hold', fam.fam_storage_hold_T(T=5)))
    return fs


def run(tier, seed):
    chk = CheckRun('C05', tier, seed)
    forms = ['col', 'dict', 'scalar']
    for tag, cfgs in families(tier):
        def make_real(cfg):
            return R.Real(cfg, form=forms[(cfg['id'] + seed) % 3])
        step = 3 if tier == 'quick' else 1
        neg = [c for k, c in enumerate(cfgs) if k % step == (seed % step)]
        pos = common.spec_to_code(chk, cfgs, make_real, relax=RELAX, neg_cfgs=neg, tag=tag)
        common.code_to_spec(chk, cfgs, make_real, tag=tag,
                            expect_feasible=(lambda c, pos=pos: bool(pos and pos['behs'].get(c['id']))))
    # long horizons: random walks of the specification (TLC -simulate) replayed into the implementation
    common.long_horizon(chk, tier, seed, [('storage', fam.fam_storage), ('storage_mip', fam.fam_storage_mip), ('storage_hold_start', fam.fam_storage_hold_start),
                                          ('storage_hold', fam.fam_storage_hold_T)], RELAX)
    # larger seeded portfolios (T = 12 / 24, up to 10 assets): TLC validates the optimiser's output, it does not enumerate
    common.code_to_spec(chk, fam.fam_random(seed + 200, n=16 if tier == 'quick' else 80, T=12 if tier == 'quick' else 24, storages=(2, 4)), lambda c: R.Real(c), tag='random', solvers=('SCIPY', None))
    chk.assumptions += ['storage parameters in the documented domain: 0 <= start_level <= size, rates >= 0, efficiency > 0',
                        'time blocks: holding cost 0 (the documented block semantics says nothing about cost across blocks)']
    return chk.finish(rule='storage variants (size, rates, efficiency 1 and 1/2, start/end level, inflow, costs) x window placement x one/two nodes '
                           'x price series; MIP options (no simultaneous in/out, maximum holding duration) and time blocks; '
                           'non-trivial = configuration with at least one complete behaviour / accepted trace', exhaustive=True)
