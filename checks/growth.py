"""GROWTH: specification coverage beyond the listed properties (not registered in MANIFEST.json; run with
`/venv/bin/python -m checks.run GROWTH`).  Currently: LinkedAsset constraints (EAOLinked)."""
import collections
import itertools
import shutil

import numpy as np
import pandas as pd

from harness import tlc
from harness.check import CheckRun
from harness.realise import CALENDARS, eao, quiet
from harness.replay import Problem


def linked_cfgs(T=4):
    out = []
    cid = 0
    for back, fwd, run0 in itertools.product((0, 1, 2), (0, 1, 2), (0, 1, 3)):
        cid += 1
        out.append(dict(id=cid, T=T, back=back, forward=fwd, run0=run0, u=2))
    return out


class LinkedReal:
    def __init__(self, c):
        A = eao.assets
        start = pd.Timestamp(CALENDARS['h'][0])
        self.tg = A.Timegrid(start, start + c['T'] * pd.Timedelta('1h'), freq='h')
        power, heat = A.Node('power'), A.Node('heat')
        a1 = A.SimpleContract(name='boiler', nodes=heat, price='p', min_cap=0, max_cap=float(c['u']))
        a2 = A.Plant(name='plant', nodes=[power], min_cap=1, max_cap=2, price='p', time_already_running=c['run0'], last_dispatch=1 if c['run0'] else 0)
        inner = eao.portfolio.Portfolio([a1, a2])
        self.asset = eao.portfolio.LinkedAsset(inner, nodes=[power, heat], name='linked', asset1_variable=(a1, 'disp', heat), asset2_variable=(a2, 'bool_on', None),
                                               asset2_time_already_running=c['run0'], time_back=c['back'], time_forward=c['forward'])
        with quiet():
            self.op = self.asset.setup_optim_problem({'p': np.ones(c['T'])}, self.tg)
        self.prob = Problem(self.op)
        m = self.op.mapping
        self.var = {}
        for idx, vn, ts in zip(m.index.values, m['var_name'].values, m['time_step'].values):
            self.var.setdefault((vn, int(ts)), int(idx))

    def pins(self, steps):
        pins = {}
        for t, s_ in enumerate(steps):
            pins[self.var[('bool_on__plant', t)]] = 1.0 if s_['on2'] else 0.0
            pins[self.var[('disp__boiler', t)]] = float(s_['v1'])
        return pins


def enumerate_linked(cfgs, relax=(), name='MClinked'):
    wd = tlc.scratch()
    try:
        defs = {'MCConfigs': '{' + ',\n   '.join(tlc.tla(c) for c in cfgs) + '}', 'MCRelax': tlc.tla(set(relax))}
        lines = ['SPECIFICATION Spec', 'CONSTANT Configs <- MCConfigs', 'CONSTANT Relax <- MCRelax', 'CONSTRAINT Emit', 'CHECK_DEADLOCK FALSE', 'INVARIANT LinkInv']
        tlc.write_mc(wd, name, 'EAOLinked', defs, lines)
        r = tlc.run_tlc(wd, name)
        if r['unparsed']:
            r = tlc.run_tlc(wd, name, workers=1)
        behs = collections.defaultdict(list)
        for tag, rec in r['records']:
            behs[rec['cid']].append(rec)
        return behs, dict(generated=r['generated'], distinct=r['distinct'], violated=r['violated'])
    finally:
        shutil.rmtree(wd, ignore_errors=True)


def run(tier, seed):
    chk = CheckRun('GROWTH', tier, seed)
    cfgs = linked_cfgs(4 if tier == 'quick' else 5)
    behs, st = enumerate_linked(cfgs)
    chk.add_tlc(st)
    if st['violated']:
        chk.violation(dict(check='spec_invariant', invariant=st['violated']), 'TLC: LinkInv violated on EAOLinked', None)
        return chk.finish(rule='-')
    negs, st2 = enumerate_linked(cfgs, relax=['link_back', 'link_forward', 'cap'], name='MClinkedneg')
    chk.add_tlc(st2)
    for c in cfgs:
        sel = dict(family='linked', back=c['back'], forward=c['forward'], run0=c['run0'])
        try:
            real = LinkedReal(c)
        except Exception as e:
            chk.violation(dict(sel, check='setup_raises', error=type(e).__name__), 'set-up raised %s: %s' % (type(e).__name__, e), dict(cfg=c))
            continue
        reach = set()
        for b in behs.get(c['id'], []):
            chk.cnt['eval_pos'] += 1
            reach.add(tuple((bool(s_['on2']), s_['v1']) for s_ in b['steps']))
            if real.prob.solve(real.pins(b['steps']))[0] != 'optimal':
                chk.violation(dict(sel, check='replay_positive'), 'behaviour of the link automaton is infeasible in the implementation', dict(cfg=c, behaviour=b))
        for b in [b for b in negs.get(c['id'], []) if b['fault']]:
            chk.cnt['eval_neg'] += 1
            if real.prob.solve(real.pins(b['steps']))[0] == 'optimal':
                chk.violation(dict(sel, check='replay_negative', fault=b['fault']), 'near-miss (%s at step %d) is feasible in the implementation' % (b['fault'], b['at']), dict(cfg=c, behaviour=b))
        # exhaustive: every (on2 pattern, positivity pattern of v1)
        for pat in itertools.product((False, True), repeat=c['T']):
            for pos in itertools.product((0, c['u']), repeat=c['T']):
                chk.cnt['eval_patterns'] += 1
                key = tuple(zip(pat, pos))
                feas = real.prob.solve(real.pins([dict(on2=o, v1=v) for o, v in key]))[0] == 'optimal'
                if feas != (key in reach):
                    chk.violation(dict(sel, check='pattern_feasible_but_unreachable' if feas else 'pattern_reachable_but_infeasible'),
                                  'on2 %s / v1 %s: implementation %s, automaton %s' % (''.join('1' if o else '0' for o in pat), pos, feas, key in reach), dict(cfg=c))
        chk.nontrivial(('linked', c['id']))
    chk.sample(dict(kind='link automaton behaviour replayed into the LinkedAsset problem', cfg=cfgs[5], behaviour=(behs.get(cfgs[5]['id']) or [None])[0]))
    return chk.finish(rule='all (time_back, time_forward, already running) in {0,1,2}x{0,1,2}x{0,1,3}; every on/positivity pattern on T steps', exhaustive=True)
