"""C18 reported nodal prices are marginal values of the optimum (supergradient of the value w.r.t. an injection)."""
import copy

import numpy as np

from harness import families as F
from harness import pipeline as P
from harness import realise as R
from harness import record as REC
from harness import tlc
from harness.check import CheckRun
from harness.realise import eao, quiet
from harness.replay import Problem

from . import common, fam

K = 1000


def injected(cfg, node, step, delta, cid):
    """the configuration plus a must-run contract delivering `delta` into `node` at `step` (price 0)"""
    c = copy.deepcopy(cfg)
    T = c['T']
    v = [0] * T
    v[step - 1] = delta
    # caps are rates per tick: only used on grids with dt = 1
    c['assets'].append(F.contract(T, node, v, v, 0))
    c['id'] = cid
    return c


def nodal_row(prob, op, node_name, step):
    """index of the row of class N whose non-zero columns are exactly the variables dispatching at (node, step) according to the mapping"""
    m = op.mapping
    sel = m[(m['node'].astype(str) == str(node_name)) & (m['time_step'] == step) & (m['type'] == 'd')]
    want = set(int(i) for i in sel.index)
    if not want:
        return None
    cache = getattr(prob, '_nrows', None)
    if cache is None:
        A = prob.A.tocsr()
        cache = {}
        for i, ch in enumerate(prob.ct):
            if ch == 'N':
                r = A.getrow(i)
                cache.setdefault(frozenset(int(j) for j, v in zip(r.indices, r.data) if v != 0), i)
        prob._nrows = cache
    return cache.get(frozenset(want))


def lp_families(tier, seed):
    th = tier == 'thorough'
    k = 1 if th else 4
    out = []
    for c in fam.fam_composite()[seed % k::k]:
        if all(d == 1 for d in c['dt']):
            out.append(('composite', c))
    for c in fam.fam_storage()[seed % (6 if not th else 2)::(6 if not th else 2)]:
        out.append(('storage', c))
    for c in fam.fam_transport()[seed % (8 if not th else 2)::(8 if not th else 2)]:
        out.append(('transport', c))
    for c in fam.fam_split()[::3 if not th else 1]:
        if c['coupling'] in ('none', 'storage_start_eq_end') and not any(a['kind'] == 'orderbook' and a['fullexec'] for a in c['assets']):      # LPs only
            out.append(('split', c))
    # conversion factors above one and nodes fed through lossy links only (the balance rows there have no coefficient 1)
    for pr in ([1, 5, 2], [4, 1, 3]):
        a = [F.multi(3, ['n1', 'n2'], [(1, 1), (2, 1)], 0, 1, pr), F.contract(3, 'n1', -2, 2, [3, 2, 4]), F.contract(3, 'n2', -3, 0, [1, 3, 2])]
        out.append(('multi_factor2', F.make_cfg(700 + len(out), 3, a)))
        a = [F.contract(3, 'n1', -2, 2, pr), F.transport(3, 'n1', 'n2', 0, 2, eff=(1, 2), cost=0), F.storage(3, 'n2', size=2, cin=1, cout=1, eff=(1, 2)),
             F.transport(3, 'n2', 'n3', 0, 2, eff=(1, 2), cost=0), F.contract(3, 'n3', -1, 0, [6, 5, 7])]
        out.append(('lossy_links', F.make_cfg(700 + len(out), 3, a)))
    # structured assets with internal nodes: the prices of the portfolio's own nodes must not be confused with those of internal nodes
    for c in fam.fam_structured()[seed % (4 if not th else 1)::(4 if not th else 1)]:
        out.append(('structured', c))
    out = [(tag, c) for tag, c in out if all(d == 1 for d in c['dt'])]      # the unit injection is a rate: one unit of volume only on unit steps
    # split set-ups on grids whose steps differ in length (days across the CET switch, intervals of two days): no lattice value function there
    # (the injection is not a unit of volume), the prices are judged by real re-optimisation with a perturbed balance
    for dt in ([24, 23, 24, 24], [24, 24, 23, 24], [24, 25, 24, 24]):
        cal = 'spring_late' if dt[2] == 23 else None
        a = [F.contract(4, 'n1', -1, 1, [1, 5, 2, 6], q=24), F.storage(4, 'n1', size=48, cin=1, cout=1, q=24), F.contract(4, 'n1', -2, 2, [3, 4, 2, 5], ec=1, q=24)]
        c = F.make_cfg(900 + len(out), 4, a, dt=dt, split={3}, refines=True, interval='2d', coupling='storage_start_eq_end', **(dict(cal=cal) if cal else {}))
        out.append(('split_dst', c))
    # magnitude of cost coefficients: the same portfolios with a back-up source priced at a "value of lost load" (never or rarely used)
    big = []
    for tag, c in out[::3 if not th else 1]:
        if tag == 'split':
            continue
        d = copy.deepcopy(c)
        n = sorted(d['nodes'])[0]
        d['assets'].append(F.contract(d['T'], n, 0, 1, 100000))
        big.append((tag + '_big_price', d))
    return out + big


def run(tier, seed):
    chk = CheckRun('C18', tier, seed)
    items = lp_families(tier, seed)
    # ---- TLC: V(0), V(+1), V(-1) for every (node, step)
    allcfgs = []
    index = {}
    cid = 0
    for k, (tag, c) in enumerate(items):
        cid += 1
        base = copy.deepcopy(c)
        base['id'] = cid
        allcfgs.append(base)
        index[(k, None, None, 0)] = cid
        if any(x != 1 for x in c['dt']):
            continue
        for n in sorted(c['nodes']):
            for t in range(1, c['T'] + 1):
                for d in (1, -1):
                    cid += 1
                    allcfgs.append(injected(c, n, t, d, cid))
                    index[(k, n, t, d)] = cid
    best, st = P.lattice_optima(allcfgs)
    chk.add_tlc(st)
    if st['violated']:
        chk.violation(dict(check='spec_invariant', invariant=st['violated']), 'TLC: invariant violated on the specification', None)
        return chk.finish(rule='-')
    traces, meta = [], []
    for k, (tag, c) in enumerate(items):
        split = bool(c['split'])
        scale = c['DEN'] * c['VS']
        # reporting history: the tables are read from the 1st, 2nd and 3rd report made for the SAME result object (with / without the
        # input prices attached) -- every report must carry valid prices, whatever was reported before
        for solver, nrep in ((None, 1), ('SCIPY', 2), ('CLARABEL', 3), ('SCIPY', 3), (None, 2)):
            if nrep > 1 and solver != 'SCIPY' and (k + seed) % 3 and tier == 'quick':
                continue
            if (solver, nrep) in ((None, 2), ('SCIPY', 3)) and (k + seed) % 2:
                continue
            sel = dict(check='nodal_prices', family=tag, solver=str(solver), route='split' if split else 'mono', report=nrep)
            real = R.Real(c, struct=c['struct']) if tag == 'structured' else R.Real(c)
            try:
                with quiet():
                    op = real.setup_split(c['interval']) if split else real.setup()
                    res = op.optimize(solver=solver) if solver else op.optimize()
                    if isinstance(res, str):
                        chk.cnt['optimize_' + res.replace(' ', '_')] += 1
                        continue
                    for rep in range(nrep):
                        out = eao.io.extract_output(real.portfolio, op, res, real.prices) if rep % 2 else eao.io.extract_output(real.portfolio, op, res)
            except Exception as e:
                chk.violation(dict(sel, check='pipeline_raises', error=type(e).__name__), 'pipeline raised %s: %s' % (type(e).__name__, e), dict(cfg=c))
                continue
            chk.cnt['eval_optimised_runs'] += 1
            pt = out['prices']
            if pt is None or len(pt.columns) == 0:
                chk.cnt['no_prices_reported'] += 1
                continue
            v0_lat = best.get(index[(k, None, None, 0)])
            v0 = float(res.value)
            prob0 = Problem(op)
            recs = []
            for n in sorted(c['nodes']):
                col = 'nodal price: ' + real.nodenames(n)
                if col not in pt.columns:
                    continue
                for t in range(1, c['T'] + 1):
                    pi = pt[col].iloc[t - 1]
                    if pi is None or (isinstance(pi, float) and np.isnan(pi)):
                        continue
                    chk.cnt['eval_prices'] += 1
                    # lattice value function from TLC; used only where the lattice optimum is the LP optimum (observed)
                    vp, vm = best.get(index.get((k, n, t, 1))), best.get(index.get((k, n, t, -1)))
                    hasv = v0_lat is not None and vp is not None and vm is not None and abs(v0_lat / scale - v0) < 1e-6 * max(1, abs(v0))
                    vd = []
                    if True:
                        # real re-optimisation with perturbed nodal right-hand side: sum(disp) + d = 0.  The balance row of (node, step) is
                        # found by its SUPPORT -- the variables whose mapping rows dispatch at that node and step -- not by the problem's own
                        # table of nodal rows (monolithic and split problems alike)
                        ridx = nodal_row(prob0, op, real.nodenames(n), t - 1)
                        if ridx is not None:
                            for dn in (1, -1):
                                p2 = copy.copy(prob0)
                                p2.lo = prob0.lo.copy()
                                p2.hi = prob0.hi.copy()
                                p2.lo[ridx] = p2.hi[ridx] = -dn / 4.0
                                s2, v2, _ = p2.solve()
                                if s2 == 'optimal':
                                    vd.append([dn, REC.fx(v2, K)])
                                    if hasv:
                                        # V is linear between lattice points on integral families: observed, else the lattice bound is not used
                                        lin = v0 + dn * ((vp if dn > 0 else vm) / scale - v0) / 4.0 * (1 if dn > 0 else -1) * (1 if dn > 0 else -1)
                    recs.append(dict(node=n, step=t, pi=REC.fx(pi, K), v0=REC.fx(v0, K), vp=REC.fx(vp / scale, K) if hasv else 0,
                                     vm=REC.fx(vm / scale, K) if hasv else 0, hasv=bool(hasv), dd=4, vd=vd, tol=5 if solver == 'SCIPY' else 20))
                    if hasv:
                        chk.cnt['prices_with_lattice_value_function'] += 1
            if recs:
                traces.append(dict(prices=recs))
                meta.append((sel, c))
    if traces:
        bad = copy.deepcopy(traces[0])
        for r in bad['prices']:
            r['pi'] = -r['pi'] - 3 * K
        verdicts, st = REC.validate_traces(traces + [bad], module='EAOPrices')
        chk.add_tlc(st)
        chk.traces += len(traces)
        if verdicts[-1][1] == 'accepted':
            raise tlc.MachineryError('anti-vacuity: sign-flipped prices accepted')
        chk.notes['corrupted_prices_verdict'] = verdicts[-1][1]
        for (sel, c), (line, v), tr in zip(meta, verdicts, traces):
            if v == 'accepted':
                chk.cnt['price_tables_accepted'] += 1
                chk.nontrivial((sel['family'], c['id'], sel['solver']))
            else:
                r = tr['prices'][line - 1] if 0 < line <= len(tr['prices']) else None
                chk.violation(dict(sel, clause=v), 'nodal price %s violates %s' % (r, v), dict(cfg=c, record=r))
        chk.sample(dict(kind='price records of one optimised run', records=traces[0]['prices'][:3], verdict=verdicts[0]))
    chk.assumptions += ['LP portfolios only; solvers that return duals', 'the lattice value function is used only where the lattice optimum equals the LP optimum (observed)',
                        'degenerate problems have many valid price vectors: only the supergradient inequality is checked']
    return chk.finish(rule='LP families (composite, storage, transport, split) x every (node, step) x injections +1/-1 (TLC lattice value function) and +-1/4 (real re-optimisation) '
                           'x solvers returning duals', exhaustive=False)
