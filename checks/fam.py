"""Configuration families (fixed exhaustive parameter grids; the seed only permutes realisations)."""
import itertools

from harness import families as F


class Ids:
    def __init__(self):
        self.n = 0

    def __call__(self):
        self.n += 1
        return self.n


def slack(T, node, price, lo=-3, hi=3, ec=0, **kw):
    return F.contract(T, node, lo, hi, price, ec=ec, **kw)


# ---------------------------------------------------------------- contracts (spread, caps, takes)
def fam_contract(T=3, thorough=False):
    ids = Ids()
    out = []
    caps = [(-2, 2), (0, 2), (-2, 0), ([-1, -2, 0][:T] + [0] * (T - 3), [1, 0, 2][:T] + [1] * (T - 3)), (1, 2)]
    prices = [[1, 5, 2], [4, 1, 3]]
    for (lo, hi), ec, pr, dt in itertools.product(caps, (0, 1), prices, ([1] * T, [2] * T)):
        pr = (pr * T)[:T]
        a = F.contract(T, 'n1', lo, hi, pr, ec=ec)
        b = slack(T, 'n1', 3, lo=-4, hi=4)
        out.append(F.make_cfg(ids(), T, [a, b], dt=dt))
    return out


def fam_takes(T=3, thorough=False):
    """min/max take periods inside, straddling start, straddling end, outside, touching (ticks; dt = 2)"""
    ids = Ids()
    out = []
    dt = [2] * T
    H = 2 * T
    periods = [(0, H), (-2, 2), (H - 2, H + 4), (2, 4), (-4, 0), (H, H + 2), (-2, H + 2), (1, 3)]
    for (s, e), sense, vol, pr in itertools.product(periods, ('min', 'max'), (2, 6), ([1, 5, 2], [4, 1, 3])):
        pr = (pr * T)[:T]
        sign = 1 if sense == 'min' else 1
        # a must-take on a buying contract (dispatch into the node costs money) / a cap on a cheap source
        lo, hi = (0, 2)
        a = F.contract(T, 'n1', lo, hi, [p if sense == 'min' else 1 for p in pr], takes=[dict(s=s, e=e, vol=vol * sign, sense=sense)],
                       force_contract=True)
        b = slack(T, 'n1', pr if sense == 'max' else 2, lo=-4, hi=0)
        out.append(F.make_cfg(ids(), T, [a, b], dt=dt))
    if thorough:
        for (s, e), sense in itertools.product(periods, ('min', 'max')):
            a = F.contract(T, 'n1', -2, 2, [3, 1, 2][:T], ec=1, takes=[dict(s=s, e=e, vol=-2 if sense == 'min' else 2, sense=sense)],
                           ws=1, we=T, force_contract=True)
            b = slack(T, 'n1', 2, lo=-4, hi=4)
            out.append(F.make_cfg(ids(), T, [a, b], dt=dt))
    return out


# ---------------------------------------------------------------- transport
def fam_transport(T=3, thorough=False):
    ids = Ids()
    out = []
    for (lo, hi), eff, cost, costts, win in itertools.product([(0, 2), (-2, 0), (1, 2)], [(1, 1), (1, 2)], (0, 1),
                                                              (0, [0, 2, 1]), [(1, T + 1), (2, T + 1), (0, T)]):
        costts_v = (costts * T)[:T] if isinstance(costts, list) else costts
        tr = F.transport(T, 'n1', 'n2', lo, hi, eff=eff, cost=cost, costts=costts_v, ws=win[0], we=win[1])
        a = slack(T, 'n1', [1, 4, 2][:T], lo=-4, hi=4)
        b = slack(T, 'n2', [3, 1, 5][:T], lo=-4, hi=4)
        out.append(F.make_cfg(ids(), T, [a, tr, b]))
    if thorough:
        for sense, (s, e) in itertools.product(('min', 'max'), [(0, 3), (-1, 2), (2, 5)]):
            tr = F.transport(T, 'n1', 'n2', 0, 2, eff=(1, 2), cost=1, takes=[dict(s=s, e=e, vol=3, sense=sense)])
            a = slack(T, 'n1', [1, 4, 2][:T], lo=-4, hi=4)
            b = slack(T, 'n2', [3, 1, 5][:T], lo=-4, hi=4)
            out.append(F.make_cfg(ids(), T, [a, tr, b]))
    return out


def fam_transport_takes(T=3):
    ids = Ids()
    out = []
    for sense, (s, e), eff in itertools.product(('min', 'max'), [(0, 3), (-1, 2), (2, 5), (1, 2)], [(1, 1), (1, 2)]):
        tr = F.transport(T, 'n1', 'n2', 0, 2, eff=eff, cost=1, takes=[dict(s=s, e=e, vol=3, sense=sense)])
        a = slack(T, 'n1', [1, 4, 2][:T], lo=-4, hi=4)
        b = slack(T, 'n2', [3, 1, 5][:T], lo=-4, hi=4)
        out.append(F.make_cfg(ids(), T, [a, tr, b]))
    return out


# ---------------------------------------------------------------- storage
STORAGES = [
    # size cin cout start end inflow eff costin costout coststore
    dict(size=2, cin=1, cout=1),
    dict(size=3, cin=2, cout=1, start=1, end=1, eff=(1, 2), costin=1),
    dict(size=2, cin=1, cout=2, end=1, inflow=1),
    dict(size=2, cin=2, cout=2, start=1, eff=(1, 2)),
    dict(size=2, cin=1, cout=1, coststore=1),
    dict(size=3, cin=2, cout=2, start=2, end=0, costout=1, coststore=1, eff=(1, 2)),
    dict(size=0, cin=1, cout=1),
    dict(size=2, cin=1, cout=1, inflow=1, end=2, costin=1, coststore=1),
]


def fam_storage(T=3, thorough=False, variants=None):
    ids = Ids()
    out = []
    wins = [(1, T + 1), (2, T + 1), (0, T)]
    for st, win, two, pr in itertools.product(variants or STORAGES, wins, (False, True), ([1, 5, 2], [4, 1, 3])):
        pr = (pr * T)[:T]
        s = F.storage(T, 'n1', 'n2' if two else 'n1', ws=win[0], we=win[1], **st)
        assets = [slack(T, 'n1', pr, lo=-3, hi=3), s]
        if two:
            assets.append(slack(T, 'n2', [3] * T, lo=-3, hi=3))
        out.append(F.make_cfg(ids(), T, assets))
    return out


# ---------------------------------------------------------------- multi-commodity
def fam_multi(T=3, thorough=False):
    ids = Ids()
    out = []
    for factors, (lo, hi), ec, takes in itertools.product([[(1, 1), (1, 1)], [(1, 1), (1, 2)], [(1, 1), (-1, 1)], [(2, 1), (1, 2)]],
                                                          [(0, 2), (-2, 2)], (0, 1), (None, ('min', 0, T, 2), ('max', -1, 2, 2))):
        tk = [dict(sense=takes[0], s=takes[1], e=takes[2], vol=takes[3])] if takes else []
        m = F.multi(T, ['n1', 'n2'], factors, lo, hi, [2, 1, 3][:T], ec=ec, takes=tk)
        a = slack(T, 'n1', [1, 4, 2][:T], lo=-4, hi=4)
        b = slack(T, 'n2', [3, 1, 5][:T], lo=-4, hi=4)
        out.append(F.make_cfg(ids(), T, [m, a, b]))
    return out


# ---------------------------------------------------------------- discounting (wacc = 1, one year per step)
def fam_discount(T=3, thorough=False):
    ids = Ids()
    out = []
    disc, DEN = F.disc_pow2(T)
    for st, pr in itertools.product([dict(size=2, cin=1, cout=1), dict(size=2, cin=2, cout=1, coststore=1, costin=1, eff=(1, 2)),
                                     dict(size=2, cin=1, cout=1, inflow=1, end=1, coststore=1)],
                                    ([1, 5, 2], [4, 1, 3], [2, 2, 8])):
        pr = (pr * T)[:T]
        s = F.storage(T, 'n1', disc=disc, **st)
        a = F.contract(T, 'n1', -3, 3, pr, ec=1, disc=disc)
        tr = F.transport(T, 'n1', 'n2', 0, 2, cost=1, disc=disc)
        b = F.contract(T, 'n2', -2, 2, [3] * T, disc=disc)
        out.append(F.make_cfg(ids(), T, [a, s, tr, b], DEN=DEN, wacc=1.0, cal='y'))
    # assets with different discount rates in one portfolio: one discounted, one not
    for pr in ([1, 5, 2], [4, 1, 3]):
        a = F.contract(T, 'n1', -2, 2, pr, disc=disc, wacc=1.0)
        b = F.contract(T, 'n1', -2, 2, [3] * T, disc=[DEN] * T, wacc=0.0)
        out.append(F.make_cfg(ids(), T, [a, b], DEN=DEN, cal='y'))
    return out


# ---------------------------------------------------------------- composite portfolios (prototype family)
def fam_composite(T=3, thorough=False):
    ids = Ids()
    out = []
    sts = STORAGES[:4]
    for pr, st, win, ec in itertools.product(([1, 5, 2], [4, 1, 3]), sts, [(1, T + 1), (2, T + 1), (0, T)], (0, 1)):
        cid = ids()
        pr = (pr * T)[:T]
        assets = [F.contract(T, 'n1', -2, 2, pr, ec=ec),
                  F.storage(T, 'n1', 'n1' if cid % 2 else 'n2', ws=win[0], we=win[1], **st),
                  F.transport(T, 'n1', 'n2', 0, 1, eff=(1, 2) if cid % 3 == 0 else (1, 1), cost=1),
                  F.contract(T, 'n2', [-1, -2, 0][:T] + [0] * (T - 3), [1, 0, 2][:T] + [1] * (T - 3), 3)]
        out.append(F.make_cfg(cid, T, assets, dt=[2] * T if cid % 4 == 0 else None))
    return out


# ---------------------------------------------------------------- storage options (C05)
def fam_storage_mip(T=3, thorough=False):
    """no-simultaneous option and maximum holding duration (MIP)"""
    ids = Ids()
    out = []
    base = [dict(size=2, cin=1, cout=1, eff=(1, 2)), dict(size=2, cin=2, cout=2, costin=1), dict(size=3, cin=2, cout=1, costout=1, eff=(1, 2), end=1)]
    for st, two, pr, opt in itertools.product(base, (False, True), ([1, 5, 2], [4, 1, 3], [2, -3, 4]),
                                              (dict(nosimult=True), dict(maxhold=1), dict(maxhold=2), dict(nosimult=True, maxhold=1))):
        pr = (pr * T)[:T]
        kw = dict(st)
        kw.update(opt)
        s = F.storage(T, 'n1', 'n2' if two else 'n1', **kw)
        assets = [slack(T, 'n1', pr, lo=-3, hi=3), s]
        if two:
            assets.append(slack(T, 'n2', [3] * T, lo=-3, hi=3))
        out.append(F.make_cfg(ids(), T, assets))
    return out


def fam_storage_hold_T(T=4):
    ids = Ids()
    out = []
    for mh, dt, pr in itertools.product((1, 2, 3), ([1] * T, [2] * T), ([1, 5, 2, 6], [4, 1, 1, 5])):
        s = F.storage(T, 'n1', size=2, cin=1, cout=1, maxhold=mh * dt[0])
        out.append(F.make_cfg(ids(), T, [slack(T, 'n1', pr[:T], lo=-2, hi=2), s], dt=dt))
    return out


def fam_storage_blocks(T=4, thorough=False, inflow=(0,)):
    """time blocks: block_size '2h' on an hourly grid; window from grid start (blocks anchored at the asset start)"""
    ids = Ids()
    out = []
    for TT, st, pr, infl in itertools.product((4, 5, 6, 7) if thorough else (4, 5),
                                              [dict(size=2, cin=1, cout=1), dict(size=2, cin=2, cout=1, start=1, end=1, eff=(1, 2)),
                                               dict(size=3, cin=1, cout=2, start=2, end=2, costin=1)],
                                              ([1, 5, 2, 6, 3, 1, 4], [4, 1, 3, 2, 5, 1, 2]), inflow):
        blocks = {s for s in range(3, TT + 1, 2)}
        kw = dict(st)
        kw['inflow'] = infl
        s = F.storage(TT, 'n1', blocks=blocks, block_size='2h', **kw)
        out.append(F.make_cfg(ids(), TT, [slack(TT, 'n1', pr[:TT], lo=-3, hi=3), s]))
    return out


# ---------------------------------------------------------------- order book (C20)
def fam_orders(T=3, thorough=False):
    ids = Ids()
    out = []
    H = T
    books = [
        [(0, H, 1, 2)], [(0, H, -1, 4)], [(1, 2, 2, 1)], [(0, 2, 1, 2), (1, 3, -1, 4)],
        [(-1, 1, 2, 1), (2, H + 2, -2, 5)],                       # straddling start / end
        [(-3, 0, 2, 1), (0, H, 1, 2)], [(0, H, 1, 2), (H, H + 2, -2, 9)],   # one order wholly outside
        [(-3, -1, 2, 1)], [(H + 1, H + 3, -1, 9)],                # all orders outside
        [(0, 1, 1, 1), (0, 1, 1, 3), (0, 1, -1, 2)],              # competing orders on one step
    ]
    for orders, full, companion, pr in itertools.product(books, (False, True), ('contract', 'storage'), ([3, 1, 4], [2, 5, 1])):
        pr = (pr * T)[:T]
        ob = F.orderbook(T, 'n1', orders, fullexec=full, fden=2)
        assets = [ob, slack(T, 'n1', pr, lo=-2, hi=2, ec=1)]
        if companion == 'storage':
            assets.append(F.storage(T, 'n1', size=2, cin=1, cout=1))
        out.append(F.make_cfg(ids(), T, assets))
    return out


def fam_orders_dt(T=3):
    """orders on grids with longer steps (delivery = fraction x capacity x step length) and discounting"""
    ids = Ids()
    out = []
    disc, DEN = F.disc_pow2(T)
    for orders, full in itertools.product([[(0, 6, 1, 2)], [(2, 4, -1, 4), (0, 4, 1, 1)], [(-2, 2, 1, 1), (4, 8, -1, 5)]], (False, True)):
        ob = F.orderbook(T, 'n1', orders, fullexec=full, fden=2)
        out.append(F.make_cfg(ids(), T, [ob, slack(T, 'n1', [3, 1, 4][:T], lo=-2, hi=2)], dt=[2] * T))
    for orders, full in itertools.product([[(0, 3, 1, 2)], [(1, 2, -1, 4), (0, 2, 1, 1)], [(-1, 1, 1, 1), (2, 4, -1, 5)]], (False, True)):
        ob = F.orderbook(T, 'n1', orders, fullexec=full, fden=2, disc=disc)
        out.append(F.make_cfg(ids(), T, [ob, F.contract(T, 'n1', -2, 2, [3, 1, 4][:T], disc=disc)], DEN=DEN, wacc=1.0, cal='y'))
    return out


# ---------------------------------------------------------------- placements relative to the horizon (C08)
def placements(T):
    return dict(before=(-2, 0), touching_before=(-1, 1), straddle_start=(0, 3), inside=(2, T), straddle_end=(T, T + 3),
                touching_after=(T + 1, T + 3), after=(T + 2, T + 4), empty=(2, 2), covering=(-1, T + 3))


def fam_placement(T=3, thorough=False):
    """every asset kind at every placement of its window; the rest of the portfolio is a spread contract + slack"""
    ids = Ids()
    out = []
    for (pname, (ws, we)), kind in itertools.product(placements(T).items(), ('contract', 'transport', 'storage', 'multi')):
        rest = [F.contract(T, 'n1', -1, 1, [1, 5, 2][:T], ec=1), slack(T, 'n1', 3, lo=-4, hi=4), slack(T, 'n2', [2, 4, 1][:T], lo=-4, hi=4)]
        if kind == 'contract':
            x = F.contract(T, 'n1', -1, 2, [4, 1, 3][:T], ec=1, ws=ws, we=we)
        elif kind == 'transport':
            x = F.transport(T, 'n1', 'n2', 0, 2, eff=(1, 2), cost=1, ws=ws, we=we)
        elif kind == 'storage':
            x = F.storage(T, 'n1', size=2, cin=1, cout=1, start=1, end=1, eff=(1, 2), ws=ws, we=we)
        else:
            x = F.multi(T, ['n1', 'n2'], [(1, 1), (1, 2)], 0, 2, [2, 1, 3][:T], ws=ws, we=we)
        out.append(F.make_cfg(ids(), T, rest + [x], placement=pname, element=kind, element_index=3))
    return out


def fam_take_placement(T=3):
    ids = Ids()
    out = []
    dt = [2] * T
    H = 2 * T
    pl = dict(before=(-4, 0), straddle_start=(-2, 2), inside=(2, 4), straddle_end=(H - 2, H + 4), after=(H, H + 4), covering=(-2, H + 2),
              unaligned=(1, 3), far_after=(H + 2, H + 6))
    for (pname, (s, e)), sense, kind in itertools.product(pl.items(), ('min', 'max'), ('contract', 'transport')):
        tk = [dict(s=s, e=e, vol=4, sense=sense)]
        if kind == 'contract':
            x = F.contract(T, 'n1', 0, 2, [4, 1, 3][:T] if sense == 'min' else [1, 1, 1][:T], takes=tk, force_contract=True)
            rest = [slack(T, 'n1', [2, 3, 2][:T], lo=-4, hi=0)]
        else:
            x = F.transport(T, 'n1', 'n2', 0, 2, cost=3 if sense == 'min' else 0, takes=tk)
            rest = [slack(T, 'n1', [1, 1, 1][:T], lo=-4, hi=4), slack(T, 'n2', [2, 3, 2][:T] if sense == 'max' else [1, 1, 1], lo=-4, hi=4)]
        out.append(F.make_cfg(ids(), T, rest + [x], dt=dt, placement=pname, element='take_' + kind, element_index=len(rest)))
    return out


# ---------------------------------------------------------------- split optimisation (C14)
def split_steps(T, size):
    """1-based steps that start a new interval when the horizon is cut into intervals of `size` steps"""
    return {s for s in range(1 + size, T + 1, size)}


def fam_split(thorough=False):
    """(cfg with split boundaries, interval string); hourly grid, intervals of 2 (and 3) hours, horizons aligned or not"""
    ids = Ids()
    out = []
    Ts = (4, 5) if not thorough else (4, 5, 6)
    for T, size in itertools.product(Ts, (2, 3) if thorough else (2,)):
        sp = split_steps(T, size)
        iv = '%dh' % size
        pr1 = [1, 5, 2, 6, 3, 4][:T]
        pr2 = [4, 1, 3, 2, 5, 1][:T]
        # nothing couples the intervals
        for pr, ec in itertools.product((pr1, pr2), (0, 1)):
            a = [F.contract(T, 'n1', -1, 1, pr, ec=ec), slack(T, 'n1', 3, lo=-2, hi=2)]
            out.append(F.make_cfg(ids(), T, a, split=sp, refines=True, interval=iv, coupling='none'))
        a = [slack(T, 'n1', pr1, lo=-2, hi=2), F.transport(T, 'n1', 'n2', 0, 1, eff=(1, 2), cost=1), slack(T, 'n2', pr2, lo=-2, hi=2)]
        out.append(F.make_cfg(ids(), T, a, split=sp, refines=True, interval=iv, coupling='none'))
        # asset window that leaves an interval empty
        a = [F.contract(T, 'n1', -1, 1, pr1, ec=1, ws=1, we=3), slack(T, 'n1', 3, lo=-2, hi=2)]
        out.append(F.make_cfg(ids(), T, a, split=sp, refines=True, interval=iv, coupling='none'))
        # storages with start level = end level
        for st, pr in itertools.product([dict(size=2, cin=1, cout=1), dict(size=2, cin=2, cout=1, start=1, end=1, eff=(1, 2)),
                                         dict(size=2, cin=1, cout=1, inflow=1, start=1, end=1, cout_=0)], (pr1, pr2)):
            st = {k: v for k, v in st.items() if not k.endswith('_')}
            a = [slack(T, 'n1', pr, lo=-3, hi=3), F.storage(T, 'n1', **st)]
            out.append(F.make_cfg(ids(), T, a, split=sp, refines=True, interval=iv, coupling='storage_start_eq_end'))
        # storage window starting inside the second interval
        a = [slack(T, 'n1', pr1, lo=-3, hi=3), F.storage(T, 'n1', size=2, cin=1, cout=1, ws=2, we=T + 1)]
        out.append(F.make_cfg(ids(), T, a, split=sp, refines=True, interval=iv, coupling='storage_start_eq_end'))
        # storages with start level # end level, and take periods across intervals: conformance of the split model only
        a = [slack(T, 'n1', pr1, lo=-3, hi=3), F.storage(T, 'n1', size=2, cin=1, cout=1, start=0, end=1)]
        out.append(F.make_cfg(ids(), T, a, split=sp, refines=False, interval=iv, coupling='storage_start_ne_end'))
        for sense, (s, e) in itertools.product(('min', 'max'), [(0, T), (1, T + 2), (-1, 3), (size, T + 1)]):   # last: later intervals only
            a = [F.contract(T, 'n1', 0, 2, pr2 if sense == 'min' else [1] * T, takes=[dict(s=s, e=e, vol=3, sense=sense)], force_contract=True),
                 slack(T, 'n1', [2, 3, 2, 3, 2, 3][:T], lo=-4, hi=0)]
            out.append(F.make_cfg(ids(), T, a, split=sp, refines=False, interval=iv, coupling='takes'))
    return out


def fam_split_discount():
    """discounting across intervals: one year per step, wacc = 1, intervals of two years"""
    ids = Ids()
    out = []
    T = 4
    disc, DEN = F.disc_pow2(T)
    for pr in ([1, 5, 2, 6], [4, 1, 3, 2]):
        a = [F.contract(T, 'n1', -1, 1, pr, ec=1, disc=disc), F.contract(T, 'n1', -2, 2, 3, disc=disc)]
        out.append(F.make_cfg(ids(), T, a, DEN=DEN, wacc=1.0, cal='y', split={3}, refines=True, interval='730D', coupling='none'))
        a = [F.contract(T, 'n1', -2, 2, pr, disc=disc), F.storage(T, 'n1', size=2, cin=1, cout=1, coststore=1, disc=disc)]
        out.append(F.make_cfg(ids(), T, a, DEN=DEN, wacc=1.0, cal='y', split={3}, refines=True, interval='730D', coupling='storage_start_eq_end'))
    return out
