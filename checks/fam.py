"""Configuration families (fixed exhaustive parameter grids; the seed only permutes realisations)."""
import itertools

from harness import families as F


def renumber(cfgs):
    """unique ids after concatenating families (TLC keys its output by cfg.id)"""
    for k, c in enumerate(cfgs):
        c['id'] = k + 1
    return cfgs


class Ids:
    def __init__(self):
        self.n = 0

    def __call__(self):
        self.n += 1
        return self.n


def slack(T, node, price, lo=-3, hi=3, ec=0, **kw):
    return F.contract(T, node, lo, hi, price, ec=ec, **kw)


# ---------------------------------------------------------------- contracts (spread, caps, takes)
def fam_contract(T=3, thorough=False):
    ids = Ids()
    out = []
    caps = [(-2, 2), (0, 2), (-2, 0), (([-1, -2, 0] * T)[:T] + [0] * (T - 3), ([1, 0, 2] * T)[:T] + [1] * (T - 3)), (1, 2)]
    prices = [[1, 5, 2], [4, 1, 3]]
    for (lo, hi), ec, pr, dt in itertools.product(caps, (0, 1), prices, ([1] * T, [2] * T)):
        pr = (pr * T)[:T]
        a = F.contract(T, 'n1', lo, hi, pr, ec=ec)
        b = slack(T, 'n1', 3, lo=-4, hi=4)
        out.append(F.make_cfg(ids(), T, [a, b], dt=dt))
    return out


def fam_takes(T=3, thorough=False):
    """min/max take periods inside, straddling start, straddling end, outside, touching (ticks; dt = 2)"""
    ids = Ids()
    out = []
    dt = [2] * T
    H = 2 * T
    periods = [(0, H), (-2, 2), (H - 2, H + 4), (2, 4), (-4, 0), (H, H + 2), (-2, H + 2), (1, 3)]
    for (s, e), sense, vol, pr in itertools.product(periods, ('min', 'max'), (2, 6), ([1, 5, 2], [4, 1, 3])):
        pr = (pr * T)[:T]
        sign = 1 if sense == 'min' else 1
        # a must-take on a buying contract (dispatch into the node costs money) / a cap on a cheap source
        lo, hi = (0, 2)
        a = F.contract(T, 'n1', lo, hi, [p if sense == 'min' else 1 for p in pr], takes=[dict(s=s, e=e, vol=vol * sign, sense=sense)],
                       force_contract=True)
        b = slack(T, 'n1', pr if sense == 'max' else 2, lo=-4, hi=0)
        out.append(F.make_cfg(ids(), T, [a, b], dt=dt))
    if thorough:
        for (s, e), sense in itertools.product(periods, ('min', 'max')):
            a = F.contract(T, 'n1', -2, 2, ([3, 1, 2] * T)[:T], ec=1, takes=[dict(s=s, e=e, vol=-2 if sense == 'min' else 2, sense=sense)],
                           ws=1, we=T, force_contract=True)
            b = slack(T, 'n1', 2, lo=-4, hi=4)
            out.append(F.make_cfg(ids(), T, [a, b], dt=dt))
    return out


# ---------------------------------------------------------------- transport
def fam_transport(T=3, thorough=False):
    ids = Ids()
    out = []
    for (lo, hi), eff, cost, costts, win in itertools.product([(0, 2), (-2, 0), (1, 2)], [(1, 1), (1, 2)], (0, 1),
                                                              (0, [0, 2, 1]), [(1, T + 1), (2, T + 1), (0, T)]):
        costts_v = (costts * T)[:T] if isinstance(costts, list) else costts
        tr = F.transport(T, 'n1', 'n2', lo, hi, eff=eff, cost=cost, costts=costts_v, ws=win[0], we=win[1])
        a = slack(T, 'n1', ([1, 4, 2] * T)[:T], lo=-4, hi=4)
        b = slack(T, 'n2', ([3, 1, 5] * T)[:T], lo=-4, hi=4)
        out.append(F.make_cfg(ids(), T, [a, tr, b], dt=[2] * T if (cost and not isinstance(costts, list)) else None))
    if thorough:
        for sense, (s, e) in itertools.product(('min', 'max'), [(0, 3), (-1, 2), (2, 5)]):
            tr = F.transport(T, 'n1', 'n2', 0, 2, eff=(1, 2), cost=1, takes=[dict(s=s, e=e, vol=3, sense=sense)])
            a = slack(T, 'n1', ([1, 4, 2] * T)[:T], lo=-4, hi=4)
            b = slack(T, 'n2', ([3, 1, 5] * T)[:T], lo=-4, hi=4)
            out.append(F.make_cfg(ids(), T, [a, tr, b]))
    return out


def fam_transport_takes(T=3):
    ids = Ids()
    out = []
    for sense, (s, e), eff in itertools.product(('min', 'max'), [(0, 3), (-1, 2), (2, 5), (1, 2)], [(1, 1), (1, 2)]):
        tr = F.transport(T, 'n1', 'n2', 0, 2, eff=eff, cost=1, takes=[dict(s=s, e=e, vol=3, sense=sense)])
        a = slack(T, 'n1', ([1, 4, 2] * T)[:T], lo=-4, hi=4)
        b = slack(T, 'n2', ([3, 1, 5] * T)[:T], lo=-4, hi=4)
        out.append(F.make_cfg(ids(), T, [a, tr, b]))
    return out


# ---------------------------------------------------------------- storage
STORAGES = [
    # size cin cout start end inflow eff costin costout coststore
    dict(size=2, cin=1, cout=1),
    dict(size=3, cin=2, cout=1, start=1, end=1, eff=(1, 2), costin=1),
    dict(size=2, cin=1, cout=2, end=1, inflow=1),
    dict(size=2, cin=2, cout=2, start=1, eff=(1, 2)),
    dict(size=2, cin=1, cout=1, coststore=1),
    dict(size=3, cin=2, cout=2, start=2, end=0, costout=1, coststore=1, eff=(1, 2)),
    dict(size=0, cin=1, cout=1),
    dict(size=2, cin=1, cout=1, inflow=1, end=2, costin=1, coststore=1),
]


def fam_storage(T=3, thorough=False, variants=None):
    ids = Ids()
    out = []
    wins = [(1, T + 1), (2, T + 1), (0, T)]
    for st, win, two, pr in itertools.product(variants or STORAGES, wins, (False, True), ([1, 5, 2], [4, 1, 3])):
        pr = (pr * T)[:T]
        s = F.storage(T, 'n1', 'n2' if two else 'n1', ws=win[0], we=win[1], **st)
        assets = [slack(T, 'n1', pr, lo=-3, hi=3), s]
        if two:
            assets.append(slack(T, 'n2', [3] * T, lo=-3, hi=3))
        out.append(F.make_cfg(ids(), T, assets))
    return out


# ---------------------------------------------------------------- multi-commodity
def fam_multi(T=3, thorough=False):
    ids = Ids()
    out = []
    for factors, (lo, hi), ec, takes in itertools.product([[(1, 1), (1, 1)], [(1, 1), (1, 2)], [(1, 1), (-1, 1)], [(2, 1), (1, 2)]],
                                                          [(0, 2), (-2, 2)], (0, 1), (None, ('min', 0, T, 2), ('max', -1, 2, 2))):
        tk = [dict(sense=takes[0], s=takes[1], e=takes[2], vol=takes[3])] if takes else []
        m = F.multi(T, ['n1', 'n2'], factors, lo, hi, ([2, 1, 3] * T)[:T], ec=ec, takes=tk)
        a = slack(T, 'n1', ([1, 4, 2] * T)[:T], lo=-4, hi=4)
        b = slack(T, 'n2', ([3, 1, 5] * T)[:T], lo=-4, hi=4)
        out.append(F.make_cfg(ids(), T, [m, a, b]))
    return out


# ---------------------------------------------------------------- discounting (wacc = 1, one year per step)
def fam_discount(T=3, thorough=False):
    ids = Ids()
    out = []
    disc, DEN = F.disc_pow2(T)
    for st, pr in itertools.product([dict(size=2, cin=1, cout=1), dict(size=2, cin=2, cout=1, coststore=1, costin=1, eff=(1, 2)),
                                     dict(size=2, cin=1, cout=1, inflow=1, end=1, coststore=1)],
                                    ([1, 5, 2], [4, 1, 3], [2, 2, 8])):
        pr = (pr * T)[:T]
        s = F.storage(T, 'n1', disc=disc, **st)
        a = F.contract(T, 'n1', -3, 3, pr, ec=1, disc=disc)
        tr = F.transport(T, 'n1', 'n2', 0, 2, cost=1, disc=disc)
        b = F.contract(T, 'n2', -2, 2, [3] * T, disc=disc)
        out.append(F.make_cfg(ids(), T, [a, s, tr, b], DEN=DEN, wacc=1.0, cal='y'))
    # assets with different discount rates in one portfolio: one discounted, one not
    for pr in ([1, 5, 2], [4, 1, 3]):
        a = F.contract(T, 'n1', -2, 2, pr, disc=disc, wacc=1.0)
        b = F.contract(T, 'n1', -2, 2, [3] * T, disc=[DEN] * T, wacc=0.0)
        out.append(F.make_cfg(ids(), T, [a, b], DEN=DEN, cal='y'))
    return out


# ---------------------------------------------------------------- composite portfolios (prototype family)
def fam_composite(T=3, thorough=False):
    ids = Ids()
    out = []
    sts = STORAGES[:4]
    for pr, st, win, ec in itertools.product(([1, 5, 2], [4, 1, 3]), sts, [(1, T + 1), (2, T + 1), (0, T)], (0, 1)):
        cid = ids()
        pr = (pr * T)[:T]
        assets = [F.contract(T, 'n1', -2, 2, pr, ec=ec),
                  F.storage(T, 'n1', 'n1' if cid % 2 else 'n2', ws=win[0], we=win[1], **st),
                  F.transport(T, 'n1', 'n2', 0, 1, eff=(1, 2) if cid % 3 == 0 else (1, 1), cost=1),
                  F.contract(T, 'n2', ([-1, -2, 0] * T)[:T] + [0] * (T - 3), ([1, 0, 2] * T)[:T] + [1] * (T - 3), 3)]
        out.append(F.make_cfg(cid, T, assets, dt=[2] * T if cid % 4 == 0 else None))
    return out


# ---------------------------------------------------------------- storage options (C05)
def fam_storage_mip(T=3, thorough=False):
    """no-simultaneous option and maximum holding duration (MIP)"""
    ids = Ids()
    out = []
    base = [dict(size=2, cin=1, cout=1, eff=(1, 2)), dict(size=2, cin=2, cout=2, costin=1), dict(size=3, cin=2, cout=1, costout=1, eff=(1, 2), end=1)]
    for st, two, pr, opt in itertools.product(base, (False, True), ([1, 5, 2], [4, 1, 3], [2, -3, 4]),
                                              (dict(nosimult=True), dict(maxhold=1), dict(maxhold=2), dict(nosimult=True, maxhold=1))):
        pr = (pr * T)[:T]
        kw = dict(st)
        kw.update(opt)
        s = F.storage(T, 'n1', 'n2' if two else 'n1', **kw)
        assets = [slack(T, 'n1', pr, lo=-3, hi=3), s]
        if two:
            assets.append(slack(T, 'n2', [3] * T, lo=-3, hi=3))
        out.append(F.make_cfg(ids(), T, assets))
    return out


def fam_storage_burn(T=3):
    """negative prices while the storage is full: with a lossy storage it pays to charge and discharge in the SAME step (energy is burnt through
    the loss); the reported gross charge / discharge must be the physical ones, not the net dispatch"""
    ids = Ids()
    out = []
    for st, pr in itertools.product([dict(size=1, cin=2, cout=1, eff=(1, 2), start=1, end=1), dict(size=2, cin=2, cout=1, eff=(1, 2)),
                                     dict(size=1, cin=2, cout=1, eff=(1, 2), start=1, end=1, costin=1)], ([-3, -4, -2], [-2, 1, -5])):
        out.append(F.make_cfg(ids(), T, [slack(T, 'n1', (pr * T)[:T], lo=-3, hi=3), F.storage(T, 'n1', **st)]))
    return out


def fam_storage_hold_start(T=4):
    """maximum holding duration when the storage is not empty at the start, and with inflow"""
    ids = Ids()
    out = []
    for st, mh, pr in itertools.product([dict(size=2, cin=1, cout=1, start=1, end=0), dict(size=3, cin=1, cout=2, start=2, end=0), dict(size=2, cin=1, cout=1, start=1, end=1),
                                         dict(size=2, cin=1, cout=2, start=0, end=0, inflow=1)], (1, 2), ([1, 5, 2, 6], [4, 1, 1, 5])):
        s = F.storage(T, 'n1', maxhold=mh, **st)
        out.append(F.make_cfg(ids(), T, [slack(T, 'n1', (pr * T)[:T], lo=-3, hi=3), s]))
    return out


def fam_storage_hold_T(T=4):
    ids = Ids()
    out = []
    for mh, dt, pr in itertools.product((1, 2, 3), ([1] * T, [2] * T), ([1, 5, 2, 6, 3, 4, 1, 5], [4, 1, 1, 5, 2, 6, 1, 3])):
        s = F.storage(T, 'n1', size=2, cin=1, cout=1, maxhold=mh * dt[0])
        out.append(F.make_cfg(ids(), T, [slack(T, 'n1', (pr * T)[:T], lo=-2, hi=2), s], dt=dt))
    return out


def fam_storage_hold_dst(T=5):
    """maximum holding duration on grids whose steps differ in length (days across the CET switches, months): the limit lies between the
    lengths of two windows of the same number of steps, so which stretches are allowed depends on WHERE they lie"""
    ids = Ids()
    out = []
    for (dt, cal, mh, q), pr in itertools.product([([24, 23, 24, 24], None, 47, 24), ([24, 25, 24, 24], None, 48, 24), ([24, 25, 24, 24], None, 49, 24),
                                                   ([31, 28, 31, 30, 31], 'month', 59, 31), ([31, 28, 31, 30, 31], 'month', 61, 31)],
                                                  ([1, 5, 2, 6, 3], [4, 1, 1, 5, 2], [1, 2, 1, 3, 6])):
        dt = (dt + [dt[-1]] * T)[:T]
        s = F.storage(T, 'n1', size=2 * max(dt), cin=1, cout=1, maxhold=mh, q=q)
        out.append(F.make_cfg(ids(), T, [slack(T, 'n1', (pr * T)[:T], lo=-2, hi=2, q=q), s], dt=dt, **(dict(cal=cal) if cal else {})))
    return out


def fam_storage_blocks(T=4, thorough=False, inflow=(0,)):
    """time blocks: block_size '2h' on an hourly grid; window from grid start (blocks anchored at the asset start)"""
    ids = Ids()
    out = []
    for TT, st, pr, infl in itertools.product((4, 5, 6, 7) if thorough else (4, 5),
                                              [dict(size=2, cin=1, cout=1), dict(size=2, cin=2, cout=1, start=1, end=1, eff=(1, 2)),
                                               dict(size=3, cin=1, cout=2, start=2, end=2, costin=1)],
                                              ([1, 5, 2, 6, 3, 1, 4], [4, 1, 3, 2, 5, 1, 2]), inflow):
        blocks = {s for s in range(3, TT + 1, 2)}
        kw = dict(st)
        kw['inflow'] = infl
        s = F.storage(TT, 'n1', blocks=blocks, block_size='2h', **kw)
        out.append(F.make_cfg(ids(), TT, [slack(TT, 'n1', pr[:TT], lo=-3, hi=3), s]))
    # blocks together with a maximum holding duration (start = end = 0: the storage is empty at every block boundary,
    # so "consecutive steps" and "per block" readings of the duration agree)
    for TT, mh, pr, infl in itertools.product((5, 7) if thorough else (5,), (1, 2), ([1, 5, 2, 6, 3, 1, 4], [4, 1, 3, 2, 5, 1, 2]), inflow):
        s = F.storage(TT, 'n1', blocks={s for s in range(4, TT + 1, 3)}, block_size='3h', size=2, cin=1, cout=2, inflow=infl, maxhold=mh)
        out.append(F.make_cfg(ids(), TT, [slack(TT, 'n1', pr[:TT], lo=-3, hi=3), s]))
    return out


# ---------------------------------------------------------------- order book (C20)
def fam_orders(T=3, thorough=False):
    ids = Ids()
    out = []
    H = T
    books = [
        [(0, H, 1, 2)], [(0, H, -1, 4)], [(1, 2, 2, 1)], [(0, 2, 1, 2), (1, 3, -1, 4)],
        [(-1, 1, 2, 1), (2, H + 2, -2, 5)],                       # straddling start / end
        [(-3, 0, 2, 1), (0, H, 1, 2)], [(0, H, 1, 2), (H, H + 2, -2, 9)],   # one order wholly outside
        [(-3, -1, 2, 1)], [(H + 1, H + 3, -1, 9)],                # all orders outside
        [(0, 1, 1, 1), (0, 1, 1, 3), (0, 1, -1, 2)],              # competing orders on one step
        # an order without any step in the horizon listed BEFORE / BETWEEN orders of which the last is too large for the companions to absorb in
        # full (partial execution would pay): with full execution it must stay at 0, and the outside order must stay inert
        [(-3, 0, 2, 1), (0, H, 1, 2), (0, 1, 4, 1)], [(0, H, 1, 2), (H + 1, H + 3, -1, 9), (1, 2, 4, 1)],
        # the same price level quoted twice (two orders, two execution decisions): the companions can absorb one of them in full, not both
        [(0, 1, 2, 1), (0, 1, 2, 1)],
        # a profitable order that ended exactly when the horizon begins (the product that has just expired in a rolling run)
        [(-2, 0, -2, 9), (0, H, 1, 2)],
    ]
    for orders, full, companion, pr in itertools.product(books, (False, True), ('contract', 'storage'), ([3, 1, 4], [2, 5, 1])):
        pr = (pr * T)[:T]
        ob = F.orderbook(T, 'n1', orders, fullexec=full, fden=2)
        assets = [ob, slack(T, 'n1', pr, lo=-2, hi=2, ec=1)]
        if companion == 'storage':
            assets.append(F.storage(T, 'n1', size=2, cin=1, cout=1))
        out.append(F.make_cfg(ids(), T, assets))
    return out


def fam_orders_companions(T=3):
    """order book given AFTER a companion with a limited window (and behind a storage): what the companions leave on the shared grid must not matter"""
    ids = Ids()
    out = []
    H = T
    for orders, full, win in itertools.product([[(0, H, 1, 2)], [(0, 2, 1, 2), (1, 3, -1, 4)], [(2, H + 2, -2, 5), (0, 1, 1, 1)]], (False, True), [(2, 3), (1, 2), (3, T + 1)]):
        assets = [slack(T, 'n1', ([3, 1, 4] * T)[:T], lo=-3, hi=3, ec=1), F.contract(T, 'n1', -1, 1, ([2, 5, 1] * T)[:T], ws=win[0], we=win[1]),
                  F.orderbook(T, 'n1', orders, fullexec=full, fden=2)]
        out.append(F.make_cfg(ids(), T, assets))
    return out


def fam_orders_dt(T=3):
    """orders on grids with longer steps (delivery = fraction x capacity x step length) and discounting"""
    ids = Ids()
    out = []
    disc, DEN = F.disc_pow2(T)
    # (the last list: orders shorter than a step that contain NO grid point -- nothing is delivered, nothing is paid -- next to an ordinary one)
    for orders, full in itertools.product([[(0, 6, 1, 2)], [(2, 4, -1, 4), (0, 4, 1, 1)], [(-2, 2, 1, 1), (4, 8, -1, 5)], [(1, 2, -1, 5), (3, 4, 1, 1), (0, 4, 1, 2)]], (False, True)):
        ob = F.orderbook(T, 'n1', orders, fullexec=full, fden=2)
        out.append(F.make_cfg(ids(), T, [ob, slack(T, 'n1', ([3, 1, 4] * T)[:T], lo=-2, hi=2)], dt=[2] * T))
    for orders, full in itertools.product([[(0, 3, 1, 2)], [(1, 2, -1, 4), (0, 2, 1, 1)], [(-1, 1, 1, 1), (2, 4, -1, 5)]], (False, True)):
        ob = F.orderbook(T, 'n1', orders, fullexec=full, fden=2, disc=disc)
        out.append(F.make_cfg(ids(), T, [ob, F.contract(T, 'n1', -2, 2, ([3, 1, 4] * T)[:T], disc=disc)], DEN=DEN, wacc=1.0, cal='y'))
    return out


# ---------------------------------------------------------------- placements relative to the horizon (C08)
def placements(T):
    return dict(before=(-2, 0), touching_before=(-1, 1), straddle_start=(0, 3), inside=(2, T), straddle_end=(T, T + 3),
                touching_after=(T + 1, T + 3), after=(T + 2, T + 4), empty=(2, 2), covering=(-1, T + 3))


def fam_placement(T=3, thorough=False):
    """every asset kind at every placement of its window; the rest of the portfolio is a spread contract + slack"""
    ids = Ids()
    out = []
    for (pname, (ws, we)), kind in itertools.product(placements(T).items(), ('contract', 'transport', 'storage', 'multi')):
        rest = [F.contract(T, 'n1', -1, 1, ([1, 5, 2] * T)[:T], ec=1), slack(T, 'n1', 3, lo=-4, hi=4), slack(T, 'n2', ([2, 4, 1] * T)[:T], lo=-4, hi=4)]
        if kind == 'contract':
            x = F.contract(T, 'n1', -1, 2, ([4, 1, 3] * T)[:T], ec=1, ws=ws, we=we)
        elif kind == 'transport':
            x = F.transport(T, 'n1', 'n2', 0, 2, eff=(1, 2), cost=1, ws=ws, we=we)
        elif kind == 'storage':
            x = F.storage(T, 'n1', size=2, cin=1, cout=1, start=1, end=1, eff=(1, 2), ws=ws, we=we)
        else:
            x = F.multi(T, ['n1', 'n2'], [(1, 1), (1, 2)], 0, 2, ([2, 1, 3] * T)[:T], ws=ws, we=we)
        out.append(F.make_cfg(ids(), T, rest + [x], placement=pname, element=kind, element_index=3))
    return out


def fam_take_placement(T=3, thorough=True):
    ids = Ids()
    out = []
    dt = [2] * T
    H = 2 * T
    pl = dict(before=(-4, 0), straddle_start=(-2, 2), inside=(2, 4), straddle_end=(H - 2, H + 4), after=(H, H + 4), covering=(-2, H + 2),
              unaligned=(1, 3), far_after=(H + 2, H + 6))
    # the asset's own window: the horizon itself, reaching beyond it on both sides (a long-running contract optimised over a
    # shorter horizon), or cutting into it
    wins = [(1, T + 1), (-2, T + 4), (2, T + 3)] if thorough else [(-2, T + 4), (2, T + 3)]
    for (pname, (s, e)), sense, kind, (ws, we) in itertools.product(pl.items(), ('min', 'max'), ('contract', 'transport'), wins):
        if not thorough and kind == 'transport' and pname in ('before', 'far_after', 'unaligned'):
            continue
        tk = [dict(s=s, e=e, vol=4, sense=sense)]
        if kind == 'contract':
            x = F.contract(T, 'n1', 0, 2, ([4, 1, 3] * T)[:T] if sense == 'min' else ([1, 1, 1] * T)[:T], takes=tk, force_contract=True, ws=ws, we=we)
            rest = [slack(T, 'n1', ([2, 3, 2] * T)[:T], lo=-4, hi=0)]
        else:
            x = F.transport(T, 'n1', 'n2', 0, 2, cost=3 if sense == 'min' else 0, takes=tk, ws=ws, we=we)
            rest = [slack(T, 'n1', ([1, 1, 1] * T)[:T], lo=-4, hi=4), slack(T, 'n2', ([2, 3, 2] * T)[:T] if sense == 'max' else ([1, 1, 1] * T)[:T], lo=-4, hi=4)]
        out.append(F.make_cfg(ids(), T, rest + [x], dt=dt, placement=pname, element='take_' + kind, element_index=len(rest)))
    return out


# ---------------------------------------------------------------- split optimisation (C14)
def split_steps(T, size):
    """1-based steps that start a new interval when the horizon is cut into intervals of `size` steps"""
    return {s for s in range(1 + size, T + 1, size)}


def fam_split(thorough=False):
    """(cfg with split boundaries, interval string); hourly grid, intervals of 2 (and 3) hours, horizons aligned or not"""
    ids = Ids()
    out = []
    Ts = (4, 5) if not thorough else (4, 5, 6)
    for T, size in itertools.product(Ts, (2, 3) if thorough else (2,)):
        sp = split_steps(T, size)
        iv = '%dh' % size
        pr1 = ([1, 5, 2, 6, 3, 4] * T)[:T]
        pr2 = ([4, 1, 3, 2, 5, 1] * T)[:T]
        # nothing couples the intervals
        for pr, ec in itertools.product((pr1, pr2), (0, 1)):
            a = [F.contract(T, 'n1', -1, 1, pr, ec=ec), slack(T, 'n1', 3, lo=-2, hi=2)]
            out.append(F.make_cfg(ids(), T, a, split=sp, refines=True, interval=iv, coupling='none'))
        a = [slack(T, 'n1', pr1, lo=-2, hi=2), F.transport(T, 'n1', 'n2', 0, 1, eff=(1, 2), cost=1), slack(T, 'n2', pr2, lo=-2, hi=2)]
        out.append(F.make_cfg(ids(), T, a, split=sp, refines=True, interval=iv, coupling='none'))
        # asset window that leaves an interval empty
        a = [F.contract(T, 'n1', -1, 1, pr1, ec=1, ws=1, we=3), slack(T, 'n1', 3, lo=-2, hi=2)]
        out.append(F.make_cfg(ids(), T, a, split=sp, refines=True, interval=iv, coupling='none'))
        # order books whose orders each lie inside one interval (so nothing couples the intervals): in every later interval the earlier
        # orders are outside that interval's grid; order book first / last in the portfolio
        orders = [(0, 1, 1, 2), (1, size, -1, 7), (size, size + 1, 2, 1), (size, min(2 * size, T), -1, 6)]
        for first, full in itertools.product((True, False), (False, True)):
            ob = F.orderbook(T, 'n1', orders, fullexec=full, fden=2)
            sl = slack(T, 'n1', pr2, lo=-2, hi=2, ec=1)
            out.append(F.make_cfg(ids(), T, [ob, sl] if first else [sl, ob], split=sp, refines=True, interval=iv, coupling='none'))
        # ... and one whose last order is too large for the companion to absorb in full: with full execution it stays at 0, the relaxation takes half
        ob = F.orderbook(T, 'n1', orders[:2] + [(size, size + 1, 4, 1)], fullexec=True, fden=2)
        out.append(F.make_cfg(ids(), T, [slack(T, 'n1', pr2, lo=-2, hi=2, ec=1), ob], split=sp, refines=True, interval=iv, coupling='none'))
        # storages with start level = end level
        for st, pr in itertools.product([dict(size=2, cin=1, cout=1), dict(size=2, cin=2, cout=1, start=1, end=1, eff=(1, 2)),
                                         dict(size=2, cin=1, cout=1, inflow=1, start=1, end=1, cout_=0)], (pr1, pr2)):
            st = {k: v for k, v in st.items() if not k.endswith('_')}
            a = [slack(T, 'n1', pr, lo=-3, hi=3), F.storage(T, 'n1', **st)]
            out.append(F.make_cfg(ids(), T, a, split=sp, refines=True, interval=iv, coupling='storage_start_eq_end'))
        # storage window starting inside the second interval
        a = [slack(T, 'n1', pr1, lo=-3, hi=3), F.storage(T, 'n1', size=2, cin=1, cout=1, ws=2, we=T + 1)]
        out.append(F.make_cfg(ids(), T, a, split=sp, refines=True, interval=iv, coupling='storage_start_eq_end'))
        # storages with start level # end level, and take periods across intervals: conformance of the split model only
        a = [slack(T, 'n1', pr1, lo=-3, hi=3), F.storage(T, 'n1', size=2, cin=1, cout=1, start=0, end=1)]
        out.append(F.make_cfg(ids(), T, a, split=sp, refines=False, interval=iv, coupling='storage_start_ne_end'))
        for sense, (s, e) in itertools.product(('min', 'max'), [(0, T), (1, T + 2), (-1, 3), (size, T + 1)]):   # last: later intervals only
            a = [F.contract(T, 'n1', 0, 2, pr2 if sense == 'min' else [1] * T, takes=[dict(s=s, e=e, vol=3, sense=sense)], force_contract=True),
                 slack(T, 'n1', ([2, 3, 2, 3, 2, 3] * T)[:T], lo=-4, hi=0)]
            out.append(F.make_cfg(ids(), T, a, split=sp, refines=False, interval=iv, coupling='takes'))
    return out


def fam_split_unaligned():
    """interval size that is not a multiple of the grid step (steps of 2 hours cut into intervals of 3 hours): a step belongs to the interval
    it STARTS in, and keeps its whole length there"""
    ids = Ids()
    out = []
    T = 5
    dt = [2] * T
    sp = {3, 4}          # intervals [0,3h): steps 1-2, [3h,6h): step 3, [6h,9h): steps 4-5 ... (the step from 8h starts in [6h,9h))
    pr1 = [1, 5, 2, 6, 3]
    for ec in (0, 1):
        a = [F.contract(T, 'n1', -1, 1, pr1, ec=ec, q=2), slack(T, 'n1', 3, lo=-2, hi=2, q=2)]
        out.append(F.make_cfg(ids(), T, a, dt=dt, split=sp, refines=True, interval='3h', coupling='none'))
    a = [slack(T, 'n1', pr1, lo=-3, hi=3, q=2), F.storage(T, 'n1', size=4, cin=1, cout=1, q=2)]
    out.append(F.make_cfg(ids(), T, a, dt=dt, split=sp, refines=True, interval='3h', coupling='storage_start_eq_end'))
    a = [F.contract(T, 'n1', 1, 1, [0] * T, q=2), slack(T, 'n1', pr1, lo=-2, hi=2, q=2)]      # a fixed delivery that must be served in every step
    out.append(F.make_cfg(ids(), T, a, dt=dt, split=sp, refines=True, interval='3h', coupling='none'))
    return out


def fam_split_single():
    """interval size at least the horizon: the split set-up consists of ONE interval and must equal the unsplit problem"""
    ids = Ids()
    out = []
    for T, size in [(4, 4), (3, 5)]:
        pr1 = ([1, 5, 2, 6, 3, 4] * T)[:T]
        a = [F.contract(T, 'n1', -1, 1, pr1, ec=1), slack(T, 'n1', 3, lo=-2, hi=2)]
        out.append(F.make_cfg(ids(), T, a, split=split_steps(T, size), refines=True, interval='%dh' % size, coupling='none'))
        a = [slack(T, 'n1', pr1, lo=-3, hi=3), F.storage(T, 'n1', size=2, cin=1, cout=1)]
        out.append(F.make_cfg(ids(), T, a, split=split_steps(T, size), refines=True, interval='%dh' % size, coupling='storage_start_eq_end'))
    return out


def fam_split_discount():
    """discounting across intervals: one year per step, wacc = 1, intervals of two years"""
    ids = Ids()
    out = []
    T = 4
    disc, DEN = F.disc_pow2(T)
    for pr in ([1, 5, 2, 6], [4, 1, 3, 2]):
        a = [F.contract(T, 'n1', -1, 1, pr, ec=1, disc=disc), F.contract(T, 'n1', -2, 2, 3, disc=disc)]
        out.append(F.make_cfg(ids(), T, a, DEN=DEN, wacc=1.0, cal='y', split={3}, refines=True, interval='730D', coupling='none'))
        a = [F.contract(T, 'n1', -2, 2, pr, disc=disc), F.storage(T, 'n1', size=2, cin=1, cout=1, coststore=1, disc=disc)]
        out.append(F.make_cfg(ids(), T, a, DEN=DEN, wacc=1.0, cal='y', split={3}, refines=True, interval='730D', coupling='storage_start_eq_end'))
    return out


# ---------------------------------------------------------------- time bookkeeping (C12)
def fam_units_transport(T=3):
    """flow limits of a transport in both directions on grids whose step is not one main time unit (dt = 2 ticks) and on DST days"""
    ids = Ids()
    out = []
    for (lo, hi), dt in itertools.product([(1, 2), (-2, -1), (-2, 0), (0, 2)], ([2] * T, [1] * T)):
        a = [slack(T, 'n1', ([1, 4, 2] * T)[:T], lo=-5, hi=5), F.transport(T, 'n1', 'n2', lo, hi, eff=(1, 2), cost=1), slack(T, 'n2', ([3, 1, 5] * T)[:T], lo=-5, hi=5)]
        out.append(F.make_cfg(ids(), T, a, dt=dt))
    for dt in ([24, 23, 24], [24, 25, 24]):
        a = [slack(T, 'n1', ([1, 4, 2] * T)[:T], lo=-2, hi=2, q=24), F.transport(T, 'n1', 'n2', -1, 1, cost=0, q=24), slack(T, 'n2', ([3, 1, 5] * T)[:T], lo=-2, hi=2, q=24)]
        out.append(F.make_cfg(ids(), T, a, dt=dt))
        a = [slack(T, 'n1', ([1, 4, 2] * T)[:T], lo=-2, hi=2, q=1), F.transport(T, 'n1', 'n2', 1, 1, cost=1, q=1), slack(T, 'n2', ([3, 1, 5] * T)[:T], lo=-2, hi=2, q=1)]
        out.append(F.make_cfg(ids(), T, a, dt=dt))
    return out


def fam_units(T=3):
    """per-time quantities everywhere: capacities, inflow, holding cost (dt = 1 tick = 1h; realised in several main time units)"""
    ids = Ids()
    out = []
    for st, pr, ec in itertools.product([dict(size=2, cin=1, cout=1, inflow=1, end=1, coststore=1), dict(size=3, cin=2, cout=1, start=1, end=1, eff=(1, 2), costin=1, coststore=2),
                                         dict(size=2, cin=1, cout=2, maxhold=1),
                                         # a storage that starts after the first step: what has accumulated counts from ITS start (inflow, holding cost)
                                         dict(size=3, cin=1, cout=2, inflow=1, end=1, coststore=1, ws=2)], ([1, 5, 2], [4, 1, 3]), (0, 1)):
        a = [F.contract(T, 'n1', -2, 2, pr, ec=ec), F.storage(T, 'n1', **st), F.transport(T, 'n1', 'n2', 0, 1, eff=(1, 2), cost=1),
             F.contract(T, 'n2', -1, 1, 3, takes=[dict(s=-1, e=2, vol=1, sense='max')], force_contract=True)]
        out.append(F.make_cfg(ids(), T, a))
    return out


def fam_dst(T=3):
    """grids whose steps differ in length: calendar days across the CET switches (24,23,24 / 24,25,24 hour ticks) and months"""
    ids = Ids()
    out = []
    for dt, pr in itertools.product(([24, 23, 24], [24, 25, 24]), ([1, 5, 2], [4, 1, 3])):
        a = [F.contract(T, 'n1', -1, 1, pr, q=12), F.storage(T, 'n1', size=30, cin=1, cout=1, coststore=1, q=12)]
        out.append(F.make_cfg(ids(), T, a, dt=dt))
        a = [F.contract(T, 'n1', -2, 2, pr, q=24, ec=1), F.contract(T, 'n1', 0, 1, 3, q=24, takes=[dict(s=0, e=sum(dt), vol=36, sense='min')], force_contract=True)]
        out.append(F.make_cfg(ids(), T, a, dt=dt))
        a = [F.contract(T, 'n1', -1, 1, pr, q=12), F.storage(T, 'n1', size=40, cin=1, cout=1, inflow=1, end=24, q=12)]
        out.append(F.make_cfg(ids(), T, a, dt=dt))
    a = [F.contract(3, 'n1', -1, 1, [1, 5, 2], q=14), F.storage(3, 'n1', size=40, cin=1, cout=1, coststore=1, q=14)]
    out.append(F.make_cfg(ids(), 3, a, dt=[31, 28, 31], cal='month'))
    return out


# ---------------------------------------------------------------- coarse frequency / periodicity (C13)
def _kinds_c13(T, extra, win=(1, None)):
    """one asset of every kind accepting freq / periodicity, with one and two variables per step"""
    ws, we = win
    we = we or T + 1
    pr = ([1, 3, 2, 6, 3, 5, 4, 2] * T)[:T]
    out = []
    out.append(('contract1', [F.contract(T, 'n1', -2, 2, pr, ws=ws, we=we, **extra), slack(T, 'n1', ([3, 1, 4, 2, 5, 1, 2, 3] * T)[:T], lo=-2, hi=2)]))
    out.append(('contract2', [F.contract(T, 'n1', -1, 1, pr, ec=1, ws=ws, we=we, **extra), slack(T, 'n1', ([3, 1, 4, 2, 5, 1, 2, 3] * T)[:T], lo=-2, hi=2, ec=0)]))
    out.append(('transport', [slack(T, 'n1', ([2, 2, 3, 3, 1, 1, 2, 2] * T)[:T], lo=-2, hi=2), F.transport(T, 'n1', 'n2', 0, 2, eff=(1, 2), cost=1, ws=ws, we=we, **extra),
                              slack(T, 'n2', ([3, 1, 6, 2, 5, 1, 2, 3] * T)[:T], lo=-2, hi=2)]))
    out.append(('storage1', [slack(T, 'n1', pr, lo=-2, hi=2), F.storage(T, 'n1', size=4, cin=1, cout=1, ws=ws, we=we, **extra)]))
    out.append(('storage2', [slack(T, 'n1', pr, lo=-2, hi=2), F.storage(T, 'n1', size=4, cin=2, cout=1, eff=(1, 2), costin=1, ws=ws, we=we, **extra)]))
    out.append(('multi', [F.multi(T, ['n1', 'n2'], [(1, 1), (1, 2)], 0, 2, pr, ws=ws, we=we, **extra), slack(T, 'n1', ([3, 1, 4, 2, 5, 1, 2, 3] * T)[:T], lo=-2, hi=2),
                          slack(T, 'n2', ([1, 2, 1, 2, 1, 2, 1, 2] * T)[:T], lo=-2, hi=2)]))
    # take periods on assets with the option: a cap on a cheap source, a must-take on a costly transport (whole horizon and a part of it)
    out.append(('contract_take', [F.contract(T, 'n1', 0, 2, [1] * T, takes=[dict(s=0, e=T, vol=2, sense='max')], force_contract=True, ws=ws, we=we, **extra),
                                  slack(T, 'n1', ([3, 1, 4, 2, 5, 1, 2, 3] * T)[:T], lo=-4, hi=0)]))
    out.append(('transport_take', [slack(T, 'n1', ([1, 1, 1, 1, 1, 1, 1, 1] * T)[:T], lo=-4, hi=4),
                                   F.transport(T, 'n1', 'n2', 0, 2, cost=3, takes=[dict(s=0, e=2 * (T // 4) + 2, vol=2, sense='min')], ws=ws, we=we, **extra),
                                   slack(T, 'n2', ([1, 1, 1, 1, 1, 1, 1, 1] * T)[:T], lo=-4, hi=4)]))
    return out


def fam_coarse(thorough=False):
    ids = Ids()
    out = []
    # windows start on a coarse boundary (counted from the grid start, so both anchorings agree); they end at the horizon end, on a
    # coarse boundary inside the horizon, or in the middle of a coarse step (the last coarse step is then shorter)
    # ... and windows reaching beyond the horizon: the asset starts one step BEFORE the horizon (its first coarse step is cut by the horizon
    # start), ends after the horizon (the last coarse step is cut by the horizon end), or both
    wins = [(4, (1, None)), (4, (3, None)), (6, (1, 4)), (6, (3, 6)), (5, (0, None)), (5, (1, 8)), (4, (0, 7))] + ([(6, (1, 5)), (6, (1, 6)), (5, (1, None)), (5, (-2, 9))] if thorough else [])
    for T, win in wins:
        a0 = min(win[0], 1)
        group = [(s - a0) // 2 + 1 for s in range(1, T + 1)]       # coarse step of 2 fine steps, anchored at the asset's start (= the grid start unless it starts earlier)
        for name, assets in _kinds_c13(T, dict(group=group, freq='2h'), win):
            if a0 < 1:
                # groups anchored one step earlier pair other steps: odd prices keep every mean of two merged prices integral
                for a in assets:
                    if a['kind'] in ('contract', 'multi'):
                        a['price'] = [2 * p - 1 for p in a['price']]
                    # take periods stay aligned with the (shifted) coarse steps; what a period cutting a coarse step means is not documented
                    for tk in a.get('takes', []):
                        if any(a['group']):
                            tk['s'] = a0 - 1
                            tk['e'] = tk['e'] - 1 if (tk['e'] - tk['s']) % 2 else tk['e']
            out.append(F.make_cfg(ids(), T, assets, variant=name, option='coarse'))
    return out


def fam_coarse_dst():
    """coarse asset frequency on grids whose steps differ in length (calendar days across the CET switches, asset frequency two days):
    constant RATE inside a coarse step means volumes proportional to the step lengths; limits and weights follow the real lengths"""
    ids = Ids()
    out = []
    T = 4
    group = [1, 1, 2, 2]
    extra = dict(group=group, freq='2d', q=24)
    for dt in ([24, 23, 24, 24], [24, 25, 24, 24], [24, 24, 23, 24]):
        cal = {23: 'spring', 25: 'fall'}[min(dt) if min(dt) < 24 else max(dt)] if dt[1] != 24 else 'spring_late'
        pr = [1, 3, 2, 6]
        ks = [('contract1', [F.contract(T, 'n1', -1, 1, pr, **extra), slack(T, 'n1', [3, 1, 4, 2], lo=-1, hi=1, q=24)]),
              ('contract2', [F.contract(T, 'n1', -1, 1, pr, ec=1, **extra), slack(T, 'n1', [3, 1, 4, 2], lo=-1, hi=1, q=24)]),
              ('transport', [slack(T, 'n1', [2, 2, 3, 3], lo=-1, hi=1, q=24), F.transport(T, 'n1', 'n2', 0, 1, cost=1, **extra), slack(T, 'n2', [3, 1, 6, 2], lo=-1, hi=1, q=24)]),
              ('storage1', [slack(T, 'n1', pr, lo=-1, hi=1, q=24), F.storage(T, 'n1', size=60, cin=1, cout=1, **extra)]),
              ('contract_take', [F.contract(T, 'n1', 0, 1, [1] * T, takes=[dict(s=0, e=sum(dt), vol=sum(dt[:2]), sense='max')], force_contract=True, **extra),
                                 slack(T, 'n1', [3, 1, 4, 2], lo=-1, hi=0, q=24)])]
        for name, assets in ks:
            out.append(F.make_cfg(ids(), T, assets, dt=dt, cal=cal, variant=name, option='coarse_dst'))
    return out


def fam_coarse_discount():
    """assets with a coarser frequency of their own (two years on a yearly grid) and DIFFERENT discount rates side by side, in both orders:
    the cash flow of a coarse step is discounted like its first year (as the implementation does; the documentation is silent)"""
    ids = Ids()
    out = []
    T = 4
    disc, DEN = F.disc_pow2(T)
    grp = [1, 1, 2, 2]
    dgrp = [disc[0], disc[0], disc[2], disc[2]]
    for pr, order in itertools.product(([1, 5, 2, 6], [5, 1, 4, 2]), (0, 1)):
        a = F.contract(T, 'n1', -1, 1, pr, group=grp, freq='730d', disc=dgrp, wacc=1.0)
        b = F.contract(T, 'n1', -1, 1, [3, 3, 3, 3], ec=1, group=grp, freq='730d', disc=[DEN] * T, wacc=0.0)
        c_ = slack(T, 'n1', [2, 4, 3, 3], lo=-2, hi=2, disc=disc, wacc=1.0)
        out.append(F.make_cfg(ids(), T, [a, b, c_] if order == 0 else [b, a, c_], DEN=DEN, cal='y', variant='contracts', option='coarse_discount'))
    return out


def fam_periodic(thorough=False):
    ids = Ids()
    out = []
    T = 4
    per = [1, 2, 1, 2]
    for name, assets in _kinds_c13(T, dict(per=per, np_=2, periodicity='2h')):
        out.append(F.make_cfg(ids(), T, assets, variant=name, option='periodic'))
    T = 8
    per = [1, 2, 1, 2, 3, 4, 3, 4]
    ks = _kinds_c13(T, dict(per=per, np_=4, periodicity='2h', periodicity_duration='4h'))
    for name, assets in (ks if thorough else [k for k in ks if k[0] in ('contract1', 'storage1', 'transport')]):
        for a in assets:   # keep the T=8 enumeration small
            if a['kind'] == 'contract' and not any(a['per']):
                a['lo'] = [-1] * T
                a['hi'] = [1] * T
        out.append(F.make_cfg(ids(), T, assets, variant=name, option='periodic_duration'))
    return out


# ---------------------------------------------------------------- scaled and structured assets (C16)
def fam_scaled(T=3, thorough=False):
    """assets AT a scale s (capacities = base x s / norm), fixed cost rate `fix` per norm scale and tick"""
    ids = Ids()
    out = []
    pr = ([1, 5, 2] * T)[:T]
    # (window of the base asset, own window of the scaled asset): equal, wrapper narrower, base narrower, wrapper reaching beyond the horizon
    wins = [((1, T + 1), (1, T + 1)), ((2, T + 1), (2, T + 1)), ((1, T + 1), (2, T)), ((2, T + 1), (1, T + 1)), ((1, T + 1), (-1, T + 3)),
            # the wrapper's window straddling the start / the end of the horizon
            ((1, T + 1), (-1, 3)), ((1, T + 1), (2, T + 3)),
            # base asset and wrapper wholly outside the horizon (after / before it): inert, at any admissible scale
            ((T + 2, T + 4), (T + 2, T + 4)), ((-3, 0), (-3, 0))]
    for (s, norm, fix), (win, fwin) in itertools.product([(1, 1, 0), (2, 1, 1), (3, 2, 2), (1, 2, 1)], wins):
        if fix == 0 and fwin != win:
            continue
        m = s / norm
        sc = dict(scale=(s, norm, fix), fixrate=s * fix, ws=win[0], we=win[1], fws=fwin[0], fwe=fwin[1])

        def cap(v):
            x = v * m
            assert x == int(x)
            return int(x)
        kinds = [('contract1', F.contract(T, 'n1', cap(-2), cap(2), pr, **sc)),
                 ('contract2', F.contract(T, 'n1', cap(-2), cap(2), pr, ec=1, **sc)),
                 ('transport', F.transport(T, 'n1', 'n2', 0, cap(2), eff=(1, 2), cost=1, **sc)),
                 ('storage1', F.storage(T, 'n1', size=cap(2), cin=cap(2), cout=cap(2), **sc)),
                 ('storage2', F.storage(T, 'n1', size=cap(4), cin=cap(2), cout=cap(2), start=cap(2), end=cap(2), eff=(1, 2), costin=1, inflow=cap(2) if win[0] == 1 else 0, **sc))]
        for name, x in kinds:
            rest = [slack(T, 'n1', ([3, 1, 4] * T)[:T], lo=-6, hi=6)]
            if name == 'transport':
                rest.append(slack(T, 'n2', ([2, 6, 1] * T)[:T], lo=-6, hi=6))
            out.append(F.make_cfg(ids(), T, rest + [x], variant=name, scale=(s, norm, fix)))
    return out


def fam_free_scale(T=3):
    """free scale in [smin, smax]; the value is linear in the scale (a margin contract against a wide slack), so the optimum is at an end point.
    Returns groups of configurations (one per candidate scale) sharing 'group'."""
    ids = Ids()
    out = []
    # bounds of the base asset per unit of scale: from zero, must-run at a fixed level, must-run with head room, must-take (all excluding zero but the first)
    for g, (fix, pr, (blo, bhi)) in enumerate(itertools.product((0, 1, 3), ([1, 1, 1], [1, 5, 2]), [(0, 2), (1, 1), (1, 2), (-2, -1)])):
        for s in (1, 2, 3):
            x = F.contract(T, 'n1', blo * s, bhi * s, pr, scale=(s, 1, fix), fixrate=s * fix, scale_range=(1, 3), fws=1, fwe=T + 1)
            out.append(F.make_cfg(ids(), T, [slack(T, 'n1', 3, lo=-8, hi=8), x], group=g, variant='free_scale', scale=(s, 1, fix)))
    return out


def fam_structured(T=3, thorough=False):
    """n1 --tr1--> ni [storage] --tr2--> n2, contracts outside; the three middle assets may be wrapped in a StructuredAsset"""
    ids = Ids()
    out = []
    for pr1, pr2, st, sw in itertools.product(([1, 4, 2], [3, 1, 1]), ([3, 2, 5], [2, 6, 1]), [dict(size=2, cin=1, cout=1), dict(size=2, cin=2, cout=1, eff=(1, 2), costin=1)],
                                              (None, (2, T + 1), (1, T))):
        ws, we = sw if sw else (1, T + 1)
        assets = [slack(T, 'n1', pr1, lo=-2, hi=2),
                  F.transport(T, 'n1', 'ni', 0, 2, cost=1, ws=ws, we=we, rws=1, rwe=T + 1),
                  F.storage(T, 'ni', ws=max(ws, 1), we=min(we, T + 1), rws=0, rwe=T + 2, **st),
                  F.transport(T, 'ni', 'n2', 0, 2, eff=(1, 2), ws=max(ws, 2), we=min(we, T + 1), rws=2, rwe=T + 3),
                  slack(T, 'n2', pr2, lo=-2, hi=2)]
        out.append(F.make_cfg(ids(), T, assets, struct=[1, 2, 3], struct_window=sw))
    return out


# ---------------------------------------------------------------- seeded larger portfolios (TLC validates, does not enumerate)
def fam_random(seed, n=20, T=12, storages=(1, 3)):
    """random portfolios on 2-3 nodes with T steps: every node has a slack market; contracts with takes, transports, storages, multi-commodity.
    Used for code -> spec only (the optimiser's output must be a behaviour of the specification, with the reported value)."""
    import random
    rnd = random.Random(seed)
    out = []
    for cid in range(1, n + 1):
        nodes = ['n1', 'n2', 'n3'][:rnd.choice((2, 3))]
        dt = [rnd.choice((1, 2))] * T
        H = sum(dt)
        assets = []
        for nd in nodes:
            assets.append(slack(T, nd, [rnd.randint(1, 9) for _ in range(T)], lo=-rnd.randint(4, 8), hi=rnd.randint(4, 8), ec=rnd.choice((0, 0, 1))))
        for _ in range(rnd.randint(*storages)):
            nin = rnd.choice(nodes)
            nout = rnd.choice(nodes) if rnd.random() < 0.4 else nin
            size = rnd.randint(2, 8)
            start = rnd.randint(0, size)
            ws = rnd.choice((1, 1, 2, -1))
            we = rnd.choice((T + 1, T + 1, T - 1, T + 3))
            assets.append(F.storage(T, nin, nout, size=size, cin=rnd.randint(1, 3), cout=rnd.randint(1, 3), start=start, end=rnd.choice((start, 0, min(size, 1))),
                                    inflow=rnd.choice((0, 0, 1)), eff=rnd.choice(((1, 1), (1, 2))), costin=rnd.choice((0, 1)), costout=rnd.choice((0, 1)),
                                    coststore=rnd.choice((0, 0, 1)), ws=ws, we=we))
        for _ in range(rnd.randint(0, 2)):
            a, b = rnd.sample(nodes, 2)
            lo, hi = rnd.choice(((0, 2), (0, 3), (-2, 0), (1, 2)))
            assets.append(F.transport(T, a, b, lo, hi, eff=rnd.choice(((1, 1), (1, 2))), cost=rnd.choice((0, 1, 2)), costts=[rnd.choice((0, 1)) for _ in range(T)]))
        for _ in range(rnd.randint(0, 2)):
            s0 = rnd.randint(-4, H - 2)
            e0 = s0 + rnd.randint(2, H)
            sense = rnd.choice(('min', 'max'))
            lo, hi = rnd.choice(((0, 3), (-2, 2), (-3, 0)))
            vol = rnd.randint(1, 6) * (1 if hi > 0 else -1)
            assets.append(F.contract(T, rnd.choice(nodes), lo, hi, [rnd.randint(1, 9) for _ in range(T)], ec=rnd.choice((0, 1)),
                                     takes=[dict(s=s0, e=e0, vol=vol, sense=sense)], force_contract=True, ws=rnd.choice((1, -2, 3)), we=rnd.choice((T + 1, T + 4, T - 2))))
        if len(nodes) >= 2 and rnd.random() < 0.5:
            a, b = rnd.sample(nodes, 2)
            assets.append(F.multi(T, [a, b], [(1, 1), rnd.choice(((1, 2), (1, 1), (-1, 1)))], 0, 2, [rnd.randint(1, 9) for _ in range(T)], ec=rnd.choice((0, 1))))
        out.append(F.make_cfg(cid, T, assets, dt=dt))
    return out
