#!/bin/sh
# usage: mut.sh <check id> <file under eaopack/> <sed expression>   -- runs the quick check on a mutated scratch copy
set -e
D=$(mktemp -d /tmp/eaomut.XXXXXX)
cp -r /repo/eaopack "$D/"
sed -i "$3" "$D/eaopack/$2"
if diff -q -r /repo/eaopack "$D/eaopack" >/dev/null; then echo "MUTATION DID NOT APPLY"; rm -rf "$D"; exit 3; fi
cd /verif
EAO_REPO="$D" /venv/bin/python -m checks.run "$1" --tier quick 2>&1 | tail -4 | cut -c1-500
rm -rf "$D"
