#!/bin/sh
# usage: mutp.sh <check id> <patch file (paths relative to repo root)> [tier]  -- runs the check on a patched scratch copy
set -e
D=$(mktemp -d /tmp/eaomut.XXXXXX)
cp -r /repo/eaopack "$D/"
(cd "$D" && patch -p1 -s < "$2") || { echo "PATCH DID NOT APPLY"; rm -rf "$D"; exit 3; }
cd /verif
EAO_REPO="$D" /venv/bin/python -m checks.run "$1" --tier "${3:-quick}" 2>&1 | tail -4 | cut -c1-500
rm -rf "$D"
