#!/bin/sh
# three obligations of the inductive argument for the label rule (EAOIndexInd): Init => IndInv, IndInv /\ Next => IndInv', IndInv => LabelsOK
set -e
D=$(mktemp -d /tmp/eaoapa.XXXXXX)
cp /verif/spec/apalache/EAOIndexInd.tla "$D/"
cd "$D"
ok=0
timeout 600 apalache-mc check --init=Init --inv=IndInv --length=0 --out-dir="$D/o1" EAOIndexInd.tla 2>&1 | grep -q "EXITCODE: OK" && ok=$((ok+1))
timeout 600 apalache-mc check --init=IndInit --inv=IndInv --length=1 --out-dir="$D/o2" EAOIndexInd.tla 2>&1 | grep -q "EXITCODE: OK" && ok=$((ok+1))
timeout 600 apalache-mc check --init=IndInit --inv=LabelsOK --length=0 --out-dir="$D/o3" EAOIndexInd.tla 2>&1 | grep -q "EXITCODE: OK" && ok=$((ok+1))
rm -rf "$D"
echo "apalache obligations discharged: $ok of 3"
[ "$ok" = 3 ]
