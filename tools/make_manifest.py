"""Regenerate MANIFEST.json from the table below (one entry per claimed property)."""
import json
import os

ROOT = os.path.dirname(os.path.dirname(os.path.abspath(__file__)))
P_TECH = 'TLC enumeration of the TLA+ reference model (EAOModel) + two-way conformance (behaviour replay into the assembled problem, TLC trace validation of extract_output)'
P_NOTE = 'Exhaustive part bounded (T<=6, integer lattice data, small portfolios); longer horizons (T=10/16) only by TLC -simulate walks replayed into the code and by trace validation of optimised runs (T=12/24); trusted base: TLC, scipy HiGHS as feasibility oracle, pandas calendar arithmetic, documented parameter domains (DESIGN.md 5.1).'

CHECKS = {
    'C02': dict(engine='tlc-eaomodel', technique=P_TECH, cat='model_checking', ref='DESIGN.md 4 (C02), 3.3, 3.4',
                text='Every lattice schedule of the TLA+ reference semantics for exhaustive small parameter grids (contracts with spread/takes, transports, storages, multi-commodity, discounting) is replayed into the real assembled problem (feasible and equally priced, per asset), every near-miss prefix must have no feasible completion, the LP optimum is compared with the lattice optimum, and the dispatch EAO returns is validated by TLC as a behaviour of the specification.',
                note=P_NOTE),
    'C05': dict(engine='tlc-eaomodel', technique=P_TECH, cat='model_checking', ref='DESIGN.md 4 (C05)',
                text='Storage guards of the TLA+ model (rates, level bounds, end level, blocks, no-simultaneous, holding duration) are enumerated by TLC over storage-centred families; strict schedules must be feasible/equally priced in the real problem, near-misses of each guard infeasible; the reported fill level / charge / discharge series of optimised runs are validated against the specification level step by step.',
                note=P_NOTE + ' Time-block families use start level = end level; blocks with holding duration only with start = end = 0.'),
    'C20': dict(engine='tlc-eaomodel', technique=P_TECH, cat='model_checking', ref='DESIGN.md 4 (C20)',
                text='Order-book semantics (Commit action with fraction lattice {0,1/2,1}, delivery and per-step discounted payment over covered steps, inert out-of-horizon orders) enumerated by TLC; every behaviour replayed into the real problem, fraction near-misses rejected, optimum equal (full execution decided exactly), optimised runs trace-validated incl. DCF totals.',
                note=P_NOTE),
    'C08': dict(engine='tlc-eaomodel', technique=P_TECH + '; with/without pairs for elements outside the horizon', cat='model_checking', ref='DESIGN.md 4 (C08)',
                text='Windows and take periods are arbitrary step/tick intervals in the TLA+ model (guards Active/TakeCovers, invariants WindowInv/OrderInertInv checked by TLC in every state); every asset kind at every placement relative to the horizon is enumerated, replayed (incl. outside_window near-misses and prorated takes) and trace-validated; for elements wholly outside the horizon the behaviours of the others (TLC output) and the real optimum must equal those of the configuration without the element.',
                note=P_NOTE + ' Plant/CHP placement pairs are compared at code level only.'),
    'C14': dict(engine='tlc-eaomodel', technique=P_TECH + '; TLC refinement invariant SplitRefinesUnsplit', cat='model_checking', ref='DESIGN.md 4 (C14)',
                text='The split model (cfg.split: storages reset per interval, take periods prorated per interval) is enumerated by TLC; the invariant SplitRefinesUnsplit replays every complete split behaviour under the unsplit configuration (same value, no guard violated) for families coupled only through start=end storages. Behaviours are replayed into the block-diagonal problem of setup_split_optim_problem, the split run is trace-validated on the ORIGINAL grid, value = sum of interval optima, equality/inequality against the unsplit optimum per coupling class, several main time units.',
                note=P_NOTE),
    'C06': dict(engine='tlc-unitcommit', technique='TLC enumeration of the unit-commitment automaton (EAOUnitCommit) + exhaustive 2^T pattern comparison against the real Plant/CHP MIP (HiGHS) + behaviour replay + TLC trace validation of optimised runs', cat='model_checking', ref='DESIGN.md 4 (C06)',
                text='TLC enumerates every reachable on/off pattern with candidate outputs of the runtime/downtime automaton for all (min runtime, min downtime, initial state) tuples (invariants MinRunInv, MinDownInv, StartInv, OffZeroInv); every one of the 2^T patterns is pinned in the real Plant problem: feasible <=> reachable; strict behaviours are replayed (value incl. start/running costs, fuel drawn per step), near-misses of every guard (min_run, min_down, off_output, cap, ramp, start_flag_missing, heat_share) must be infeasible; optimised runs (SCIP, default solver) are validated step by step by Trace_EAOUnitCommit.',
                note='Bounded: T<=6 quick / <=8 thorough, integer data, equal step lengths, consistent declared initial state, elapsed durations multiples of the step; start/shutdown ramp profiles in EAOUnitCommitRamp (plants off at the start or declared running, heat bounds of a CHP, profiles given in another frequency converted by the specification: ratios 2, 1/2, 3/2, 2/3; 3, 1/3 thorough; ordinary ramp limit together with profiles for plants that are off at the start); required durations up to two steps beyond the horizon. Trusted: TLC, HiGHS (presolve off for MIP), SCIP.'),
    'C03': dict(engine='tlc-eaosolve', technique='TLC decides, for every recorded optimize() call, whether the recorded response is an enabled action of the EAOSolve specification (feasibility by row class, value, optimality / infeasibility by lattice enumeration)', cat='model_checking', ref='DESIGN.md 4 (C03), 2.4',
                text='Real OptimProblem.optimize calls on tiny integral programs (all four row classes, booleans with non-0/1 bounds, duplicated mapping rows, infeasible programs, split concatenation, relaxed solves with make_soft_problem, and HISTORIES of relaxed / exact calls on one problem object) with every installed solver are recorded; TLC enumerates the lattice of each program and checks that a reported solution satisfies bounds / rows by class / booleans, that value = -c.x, that no lattice point is better, and that a reported failure comes with an empty feasible set.',
                note='Programs have integral polytopes (interval rows) or integer variables so lattice enumeration is exact (fractional bounds only on boolean variables and only for exact solves); numerical conditioning (coefficients of extreme magnitude) is not decided; ortools/CPLEX not installed; trusted: TLC.'),
    'C01': dict(engine='tlc-eaomodel', technique=P_TECH + '; light TLA+ abstraction Trace_Portfolio for all asset types and routes', cat='model_checking', ref='DESIGN.md 4 (C01)',
                text='Balance is a guard of Step and the invariant BalanceInv of the TLA+ model; balanced lattice schedules are replayed (accepted), every imbalance of exactly one unit at one node and step (also through the second row of transports / commodity factors) must be infeasible; the reported dispatch of optimised runs is validated step by step (Trace_EAOModel for the reference families incl. split; Trace_Portfolio -- flows and attachment only -- for a zoo of 16 portfolios over all asset types along the routes monolithic, split, io.optimize).',
                note=P_NOTE + ' Structured assets are checked at their external nodes (as the statement says).'),
    'C04': dict(engine='tlc-eaomodel', technique=P_TECH + '; Trace_Portfolio accounting clauses for all asset types and routes', cat='model_checking', ref='DESIGN.md 4 (C04)',
                text='ValDef (val = sum of per-asset sums of per-step cash flows) is a TLC invariant of the model; per-asset -c_a.x_a equals the model cash flow of that asset on EVERY replayed lattice behaviour; optimised runs are trace-validated: reported value = sum of the DCF table, per-asset DCF total = -c_a.x_a = the model total (discounting, order books, holding costs, split); the same accounting clauses are evaluated by TLC for the zoo of all asset types (scaled, structured, linked, periodic, coarse, CHP) along mono/split/io routes.',
                note=P_NOTE + ' The step on which a cash flow is booked is not compared (not part of the statement).'),
    'C07': dict(engine='tlc-eaoassembly', technique='TLC on the TLA+ model of the index algorithm (EAOAssembly; three labelling rules, adversarial names, unmapped variables) + TLC evaluation of every C07 clause on assembly traces recorded from the real code (Trace_EAOAssembly)', cat='model_checking', ref='DESIGN.md 4 (C07), 2.3',
                text='Design level: TLC proves LabelInRange/LabelInjective/LabelIsPosition for the rule the code uses and must find the counterexamples of the pre-repair key rule (anti-vacuity). Code level: per-asset problems and the assembled problem of every zoo portfolio (all asset types incl. scale variables, booleans, periodic merge with duration, coarse grids), adversarial name sets, order books with out-of-horizon orders and reference families are logged as tables; TLC checks sizes, label range, ownership (rows, cost, bounds per variable), injectivity, embedding of asset rows, inert unmapped variables, l<=u/NaN, steps on grid, exactly one nodal row per (node, step) with dispatch.',
                note='Per-asset problems are obtained through the public per-asset set-up with the same prices/grid; every zoo portfolio is also traced on its SECOND set-up (grid of equal length starting later); fixed point 1e-3; trusted: TLC.'),
    'C19': dict(engine='tlc-eaotime', technique='TLC enumeration of the EAOTime specification (all grid / window / coarse / interval-list calls, C19 clauses as invariants) + exact comparison of every specified result with the real Timegrid call', cat='model_checking', ref='DESIGN.md 4 (C19), 2.1',
                text='EAOTime (absolute hour ticks, one-switch zones, fixed vs calendar frequencies, Restrict, Coarse, Assign) is enumerated over all (zone, frequency, start, end, main time unit) cases around the real CET switches of 2021, all restriction windows, coarse frequencies and interval lists; TLC checks Increasing, StartsAtStart, BeforeEnd, StepLenTrue, CumLenTrue, RestrictDef, CoarsePartition, AssignDef in every state and emits the expected result of each call; the real Timegrid / set_restricted_grid / values_to_grid / prices_to_grid is called with the same arguments and compared exactly (rationals).',
                note='timestamped price points cast onto the grid (PricesToGrid: interpolation in absolute time, invariant PricesDef); pandas calendar arithmetic trusted for ticks -> timestamps; non-existing / ambiguous local hours are not used as inputs; one zone (CET).'),
    'C09': dict(engine='tlc-eaomodel', technique=P_TECH + '; symmetry of the specification by two TLC enumerations; realisation under permutations and adversarial renamings', cat='model_checking', ref='DESIGN.md 4 (C09)',
                text='Specification level: for every configuration TLC enumerates it and a copy with permuted assets and renamed nodes; the behaviour sets must coincide up to the permutation. Binding: the SAME TLC output is replayed into realisations under permutations of the asset list and a catalogue of injective renamings of assets, nodes and structured wrappers (digit-only names of different lengths, names that are prefixes/suffixes of each other, names containing the separators "__", "_internal_", " ("); feasibility, values and per-asset cash flows must agree, optima must be equal, traces found by the new names are validated.',
                note=P_NOTE),
    'C12': dict(engine='tlc-eaomodel', technique=P_TECH + '; the main time unit as a realisation axis of the same TLC output; unit-commitment pattern comparison under other units', cat='model_checking', ref='DESIGN.md 4 (C12)',
                text='The TLA+ quantities are physical (rate x elapsed ticks); the SAME TLC behaviours and near-misses must be accepted/rejected and priced identically when the portfolio is realised with main time unit h, d, min (s in the thorough tier) with rates and durations re-expressed: families with capacities, inflow, holding cost, maximum holding time, take periods, discounting (wacc=1, yearly steps), split routes, and grids with unequal steps (calendar days across both CET switches: 24/23/24, 24/25/24 hour ticks; months 31/28/31). Optimal values are compared across units; Plant on/off patterns are compared with the automaton under d and min.',
                note=P_NOTE),
    'C13': dict(engine='tlc-eaomodel', technique=P_TECH + '; coarse/periodic equalities as guards GroupChk/PeriodChk of the fine model', cat='model_checking', ref='DESIGN.md 4 (C13)',
                text='The specification is the FINE model plus exactly the equalities (constant rate per coarse interval, same volume at the same position of every period within a duration; invariants GroupInv, PeriodInv); TLC enumerates all such schedules for every asset kind accepting the options (contract with one and two variables, transport, storage with one and two variables, multi-commodity); they are replayed into the coarse / periodic problem through the mapping rows (x_major from each minor step), non-constant schedules must not be representable, the optimum equals the lattice optimum of the constrained fine model, and the fine dispatch table of optimised runs is trace-validated.',
                note=P_NOTE + ' Limits constant inside merged steps; coarse windows may reach beyond the horizon on either side (first / last coarse step cut) and end inside a coarse step; take periods aligned with coarse steps; daily CET grids across the DST switches with asset frequency 2d; wacc=0 for coarse assets.'),
    'C16': dict(engine='tlc-eaomodel', technique=P_TECH + '; ScaledAsset / StructuredAsset as realisation routes of the same TLC output', cat='model_checking', ref='DESIGN.md 4 (C16)',
                text='Scaled: the configuration states the asset AT scale s (capacities x s/norm, fixed cost s x rate per active tick as part of the step cost in EAOGuards); ScaledAsset(base, min=max=s) must accept exactly the TLC behaviours with equal per-asset value, near-misses rejected; free scale: optimum = best over the lattice of scales on families linear in the scale. Structured: wrapped (StructuredAsset incl. wrapper window clipping inner windows) and flat realisations conform to the same TLC behaviours, equal optimum.',
                note=P_NOTE + ' Base assets without booleans.'),
    'C15': dict(engine='tlc-eaoassembly', technique='TLC evaluation of the FixWindow clause on assembly traces of real set-ups with fix_time_window (Trace_EAOAssembly, mode "fix") + re-optimisation histories', cat='model_checking', ref='DESIGN.md 4 (C15)',
                text='For the zoo of all asset types (several mapping rows per variable, appended variables) and six window forms (masks, index list, date, empty, all) the bounds before/after fixing, the previous solution and the mapping rows are logged; TLC checks that exactly the variables having a mapping row with a step in the window are pinned to the previous value and all others keep their bounds. The history Setup -> Optimize -> Setup(fix) -> Optimize is replayed: value unchanged under unchanged prices, window part unchanged under new prices, the user dictionary re-usable.',
                note='"belonging to a step in the window" is read as any-row semantics; trusted: TLC, HiGHS for re-optimisation.'),
    'C18': dict(engine='tlc-eaomodel', technique='TLC lattice value function of EAOModel under unit injections (+1/-1 at every node and step) + TLC check of the supergradient inequalities (EAOPrices) on reported prices and real re-optimisations', cat='model_checking', ref='DESIGN.md 4 (C18)',
                text='For LP families (composite, storage, transport, split) TLC computes the lattice optima V(0), V(+1), V(-1) of the configuration with a must-run unit contract at each (node, step); the nodal prices reported by extract_output for every solver returning duals must satisfy V(+1)-V(0) <= price <= V(0)-V(-1) (used where the lattice optimum equals the LP optimum, observed), and V(d) <= V(0)+price*d for real re-optimisations with the nodal right-hand side perturbed by d=+-1/4; all inequalities are evaluated by TLC (EAOPrices).',
                note='LP only; split set-ups on DST grids judged by re-optimisation only; prices read from repeated reports on one result object; prices compared only through the supergradient inequality (degenerate problems have many valid prices); trusted: TLC, HiGHS for re-optimisation.'),
    'C17': dict(engine='tlc-eaoscenario', technique='TLC enumeration of EAOScenario (two-stage fork and robust valuation over the EAOGuards semantics) giving lattice values of SLP / wait-and-see / robust; compared with make_slp and the robust target of the real code together with the defining inequalities', cat='model_checking', ref='DESIGN.md 4 (C17), 2.5',
                text='EAOScenario forks the state at the stage boundary (present moves common, one future per scenario, invariants PresentShared/PresentCommon) and, in robust mode, values one schedule under every scenario. TLC gives the lattice SLP optimum, per-scenario optima and best worst case. Binding: make_slp(...).optimize() lies between the expected value of fixing the present to each single-scenario solution (fix_time_window) and the mean of the per-scenario optima, equals the deterministic optimum for coinciding scenarios and the model SLP optimum on integral instances, present variables occur once in the extended problem; the robust solution is feasible, its worst case is >= that of every single-scenario solution, <= the smallest scenario optimum and >= the model best worst case.',
                note='2-3 scenarios, T=3 (T=4 with coarse steps straddling the boundary), boundary after first / before last step; scenarios share the prices of every step a present variable covers; trusted: TLC, HiGHS.'),
    'C10': dict(engine='tlc-eaohistory', technique='TLC exploration of the lifecycle model EAOHistory (labelled state graph) -> histories (all of length <= 2, one per transition via shortest path, random walks) executed on real objects, each returned problem compared with Fresh(call, arguments)', cat='model_checking', ref='DESIGN.md 4 (C10), 2.6',
                text='EAOHistory models what the implementation keeps between calls (grid each asset points to, portfolio grid, whose window sits in the shared restricted grid, normal form of user dictionaries) with the public calls as actions (cost sampling for robust / stochastic optimisation, asset / portfolio set-up with and without grid, split set-up, optimise+output, save/load). TLC explores the graph (TypeOK, PortfolioOwnsGrid, FormMonotone); the harness executes the derived histories on real objects (contract with interval-dictionary limits and take period, storage, structured wrapper, market; grids with another horizon / zone) and compares every call with what brand-new objects return for the same arguments; the projected implementation state is compared with the model state as a diagnostic only.',
                note='Depth 3; quick tier samples the depth-3 transitions; violation criterion is only the returned problem / an unexpected exception.'),
    'C11': dict(engine='tlc-eaohistory', technique='TLC on the class-descriptor model EAOSerial (stored keys within accepted keywords, required keywords stored, grid fields) with descriptors recorded from the running code + behavioural save/load/re-save/set-up round trips per lifecycle state', cat='model_checking', ref='DESIGN.md 4 (C11), 2.6',
                text='Descriptors (attribute keys written by to_json in the states fresh / after set-up / after optimise; constructor keywords and required keywords by inspection) of every asset class of the zoo are given to TLC, which moves each class through its lifecycle and checks LoadableInv and GridSurvives. Behaviourally, every zoo asset and 13 parameter forms (scalars, interval dictionaries as lists / numpy / DatetimeIndex / without end / zone-aware, date windows, column names, order books from dict and DataFrame) are saved, loaded, re-saved (same JSON) and set up on naive and CET grids against the original; portfolios with naive and CET grids must keep time points and zone and produce the identical problem.',
                note='Identity of problems by canonical digest (arrays rounded to 1e-9); zone-aware parameters only with zone-aware grids.'),
}

ENGINES = [
    dict(name='tlc-eaomodel', path='spec/EAOModel.tla', serves_properties=sorted(k for k, v in CHECKS.items() if v['engine'] == 'tlc-eaomodel'),
         kind_free_text='TLA+ reference semantics (EAOGuards + EAOModel) enumerated exhaustively by TLC with all invariants; behaviours replayed into the assembled problem (HiGHS oracle); implementation traces validated in batches by Trace_EAOModel'),
    dict(name='tlc-unitcommit', path='spec/EAOUnitCommit.tla', serves_properties=['C06'],
         kind_free_text='TLA+ automaton of Plant/CHP unit commitment (EAOUCGuards, EAOUnitCommit, Trace_EAOUnitCommit) enumerated by TLC; patterns/behaviours replayed into the real MIP; optimised runs trace-validated'),
    dict(name='tlc-eaosolve', path='spec/EAOSolve.tla', serves_properties=['C03'],
         kind_free_text='TLA+ contract of the optimiser (ReturnSolution / ReturnFailure / ReturnInaccurate enabledness) evaluated by TLC on recorded calls'),
    dict(name='tlc-eaoassembly', path='spec/EAOAssembly.tla', serves_properties=['C07', 'C15'],
         kind_free_text='TLA+ model of the index/mapping algorithm + Trace_EAOAssembly evaluating the C07/C15 clauses on tables logged from the real assembly'),
    dict(name='tlc-eaotime', path='spec/EAOTime.tla', serves_properties=['C19'],
         kind_free_text='TLA+ specification of time grids / sub-grids / interval data enumerated by TLC; every call replayed on the real Timegrid'),
    dict(name='tlc-eaoscenario', path='spec/EAOScenario.tla', serves_properties=['C17'],
         kind_free_text='TLA+ two-stage / robust scenario semantics over EAOGuards enumerated by TLC; values compared with make_slp and the robust optimisation target'),
    dict(name='tlc-eaohistory', path='spec/EAOHistory.tla', serves_properties=['C10', 'C11'],
         kind_free_text='TLA+ lifecycle model explored by TLC (state graph dump with action labels); histories replayed on real objects against fresh objects'),
]

NOT_APPLICABLE = []


def main():
    props = [json.loads(l)['id'] for l in open(os.path.join(ROOT, 'properties.jsonl'))]
    checks = []
    for pid in props:
        if pid not in CHECKS:
            continue
        c = CHECKS[pid]
        checks.append(dict(property_id=pid,
                           quick_cmd='/venv/bin/python -m checks.run %s --tier quick' % pid,
                           thorough_cmd='/venv/bin/python -m checks.run %s --tier thorough' % pid,
                           evidence_file='/verif/evidence/%s.json' % pid,
                           replay_cmd_template='/venv/bin/python -m checks.run %s --replay {path}' % pid,
                           engine=c['engine'], technique=c['technique'],
                           level_claimed=dict(category=c['cat'], text=c['text'], design_ref=c['ref']),
                           level_note=c['note']))
    na = list(NOT_APPLICABLE)
    claimed = set(CHECKS)
    listed = {x['property_id'] for x in na}
    for pid in props:
        if pid not in claimed and pid not in listed:
            na.append(dict(property_id=pid, reason='check not built yet in this revision of /verif (planned, see DESIGN.md section 4); no claim is made'))
    man = dict(version=1, setup_cmd='cd /verif && ./setup.sh',
               hooks=dict(guard='EAO_VERIF_TRACE', enable='EAO_VERIF_TRACE=<ndjson file> in the environment of the process importing eaopack (set by harness/harvest.py for the thorough tiers of C01 and C04; nothing else uses a hook)',
                          baseline_off_cmd='cd /repo && /venv/bin/python -m pytest -ra -q -p no:cacheprovider --timeout=900 --continue-on-collection-errors',
                          source_commits=HOOK_COMMITS, add_only=True),
               engines=ENGINES, checks=checks, not_applicable=na,
               notes='Checks import eaopack from /repo working tree (EAO_REPO overrides for self-tests on scratch copies). Exit 2 = machinery failure. known_findings.json lists recorded defects; fix: commits in /repo are recorded there as fixed entries.')
    with open(os.path.join(ROOT, 'MANIFEST.json'), 'w') as f:
        json.dump(man, f, indent=1)
    print('MANIFEST.json: %d checks, %d not_applicable' % (len(checks), len(na)))


HOOK_COMMITS = ['8c91048']

if __name__ == '__main__':
    main()
