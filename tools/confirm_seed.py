"""Re-confirm seeded changes against the CURRENT /repo (after repairs moved the code): scratch copy + patch, the repository's tests must
pass, the demonstration must fail with / pass without the change.  Updates meta.json (repo_tests_with_change, demo_*, confirmed).
   tools/confirm_seed.py C10r2 C11r2 ..."""
import json
import os
import shutil
import subprocess
import sys
import tempfile
import time


def sh(cmd, cwd=None, env=None):
    p = subprocess.run(cmd, shell=True, cwd=cwd, capture_output=True, text=True, env=env)
    return p.returncode, p.stdout + p.stderr


for ID in sys.argv[1:]:
    dst = '/verif/seeded/' + ID
    meta = json.load(open(dst + '/meta.json'))
    D = tempfile.mkdtemp(prefix='eaoseed_')
    try:
        shutil.copytree('/repo/eaopack', D + '/eaopack')
        shutil.copytree('/repo/tests', D + '/tests')
        rc, out = sh('patch -p1 -s < %s/patch.diff' % dst, cwd=D)
        meta['applies_to_repo_head'] = rc == 0
        if rc != 0:
            print(ID, 'patch does not apply', out[-300:])
            continue
        rc, out = sh('/venv/bin/python -m pytest -q -p no:cacheprovider tests 2>&1 | tail -3', cwd=D)
        meta['repo_tests_with_change'] = [l for l in out.splitlines() if 'passed' in l or 'failed' in l][-1:] or [out[-200:]]
        new = ID[3:] in ('r3', 'r4', 'r5', 'r6')
        if new:
            rc1, o1 = sh('/venv/bin/python %s/demo.py' % dst, cwd='/tmp', env=dict(os.environ, PYTHONPATH=D))
            rc0, o0 = sh('/venv/bin/python %s/demo.py' % dst, cwd='/tmp', env=dict(os.environ, PYTHONPATH='/repo'))
        else:
            rc1, o1 = sh('/venv/bin/python %s/demo.py %s' % (dst, D), cwd='/tmp')
            rc0, o0 = sh('/venv/bin/python %s/demo.py /repo' % dst, cwd='/tmp')
        meta['demo_with_change'] = dict(rc=rc1, tail=o1.strip().splitlines()[-3:])
        meta['demo_without_change'] = dict(rc=rc0, tail=o0.strip().splitlines()[-3:])
        meta['confirmed'] = rc1 != 0 and rc0 == 0 and any('100 passed' in l for l in meta['repo_tests_with_change'])
        meta['reconfirmed_at'] = time.strftime('%Y-%m-%d %H:%M:%S') + ' on ' + subprocess.check_output(['git', '-C', '/repo', 'log', '--format=%h', '-1']).decode().strip()
        print(ID, meta['repo_tests_with_change'], 'demo changed rc=%d unchanged rc=%d' % (rc1, rc0), 'CONFIRMED' if meta['confirmed'] else 'NOT CONFIRMED', flush=True)
    finally:
        shutil.rmtree(D, ignore_errors=True)
        json.dump(meta, open(dst + '/meta.json', 'w'), indent=1)
