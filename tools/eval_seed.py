"""Evaluate a seeded change produced by a sub-agent in /tmp/seed/<ID>:
   1. the repository's tests pass with the change, 2. its demonstration fails with / passes without the change,
   3. apply it to /repo, run the quick (and optionally thorough) check of the property, undo it.
   Keeps patch.diff, demo.py and meta.json under /verif/seeded/<ID>/."""
import json
import os
import shutil
import subprocess
import sys
import time

ID = sys.argv[1]
extra = sys.argv[2:]          # further check ids to run against the change
src = '/tmp/seed/' + ID
NEWSTYLE = ID[3:] in ('r3', 'r4', 'r5', 'r6')          # from the third round on: worktrees /tmp/seed<k>/Cxx, demonstrations take the library from PYTHONPATH
if NEWSTYLE:
    src = '/tmp/seed%s/' % ID[4] + ID[:3]
dst = '/verif/seeded/' + ID
os.makedirs(dst, exist_ok=True)
PROP = ID[:3]          # second-round seeds are named C05r2, ...
meta = dict(property=PROP, at=time.strftime('%Y-%m-%d %H:%M:%S'))


def sh(cmd, cwd=None, timeout=3000):
    p = subprocess.run(cmd, shell=True, cwd=cwd, capture_output=True, text=True, timeout=timeout)
    return p.returncode, (p.stdout + p.stderr)


if not (os.environ.get('SEED_RECHECK') and os.path.exists(dst + '/patch.diff')):
    assert os.path.exists(src + '/patch.diff') and os.path.getsize(src + '/patch.diff') > 0, 'no patch.diff'
    shutil.copy(src + '/patch.diff', dst + '/patch.diff')
    shutil.copy(src + '/demo.py', dst + '/demo.py')
# the patch must apply to /repo's HEAD
rc, out = sh('git -C /repo apply --check %s/patch.diff' % dst)
meta['applies_to_repo_head'] = rc == 0
if rc != 0:
    print('patch does not apply:', out[-500:])
    json.dump(meta, open(dst + '/meta.json', 'w'), indent=1)
    sys.exit(1)
RECHECK = os.environ.get('SEED_RECHECK') and os.path.exists(dst + '/meta.json')      # confirmation done before: only re-run checks
if RECHECK:
    old = json.load(open(dst + '/meta.json'))
    meta.update({k: old[k] for k in ('repo_tests_with_change', 'demo_with_change', 'demo_without_change', 'confirmed', 'summary', 'needs', 'round', 'history') if k in old})
    results_old = old.get('checks', {})
rc, out = (0, '') if RECHECK else sh('/venv/bin/python -m pytest -q -p no:cacheprovider tests 2>&1 | tail -3', cwd=src)
if not RECHECK:
    meta['repo_tests_with_change'] = [l for l in out.splitlines() if 'passed' in l or 'failed' in l][-1:] or [out[-200:]]
if RECHECK:
    rc1, rc0 = meta['demo_with_change']['rc'], meta['demo_without_change']['rc']
elif NEWSTYLE:
    rc1, o1 = sh('PYTHONPATH=%s /venv/bin/python %s/demo.py' % (src, dst), cwd='/tmp')
    rc0, o0 = sh('PYTHONPATH=/repo /venv/bin/python %s/demo.py' % dst, cwd='/tmp')
else:
    rc1, o1 = sh('/venv/bin/python %s/demo.py %s' % (dst, src), cwd='/tmp')
    rc0, o0 = sh('/venv/bin/python %s/demo.py /repo' % dst, cwd='/tmp')
if not RECHECK:
    meta['demo_with_change'] = dict(rc=rc1, tail=o1.strip().splitlines()[-3:])
    meta['demo_without_change'] = dict(rc=rc0, tail=o0.strip().splitlines()[-3:])
ok = rc1 != 0 and rc0 == 0 and any('100 passed' in l for l in meta['repo_tests_with_change'])
meta['confirmed'] = ok
print(ID, 'tests:', meta['repo_tests_with_change'], 'demo changed rc=%d unchanged rc=%d' % (rc1, rc0), 'CONFIRMED' if ok else 'NOT CONFIRMED')
results = dict(results_old) if RECHECK else {}
# the checks run against a scratch copy of /repo's package with the change applied (EAO_REPO), so that /repo itself -- which
# other runs may be using at the same time -- is never touched; scratch runs write their evidence under out/, not evidence/
import tempfile
D = tempfile.mkdtemp(prefix='eaoseed_')
try:
    shutil.copytree('/repo/eaopack', D + '/eaopack')
    shutil.copytree('/repo/tests', D + '/tests')
    rc, out = sh('patch -p1 -s < %s/patch.diff' % dst, cwd=D)
    assert rc == 0, out
    for cid in [PROP] + extra:
        for tier in ['quick']:
            t0 = time.time()
            p = subprocess.run('/venv/bin/python -m checks.run %s --tier %s' % (cid, tier), shell=True, cwd='/verif', capture_output=True, text=True,
                               env=dict(os.environ, EAO_REPO=D))
            rc, out = p.returncode, p.stdout + p.stderr
            vio = [l[:400] for l in out.splitlines() if l.startswith('VIOLATION')]
            results['%s_%s' % (cid, tier)] = dict(rc=rc, violations=len(vio), first=vio[:2], last=out.strip().splitlines()[-1][:200] if out.strip() else '', wall=round(time.time() - t0))
            print('  check', cid, tier, 'rc=%d' % rc, 'violation lines=%d' % len(vio), (vio[0][:300] if vio else ''))
finally:
    shutil.rmtree(D, ignore_errors=True)
if os.path.exists(src + '/notes.json'):
    try:
        n = json.load(open(src + '/notes.json'))
        meta['summary'], meta['needs'] = str(n.get('summary', '')), str(n.get('needs', ''))
    except Exception:
        pass
if NEWSTYLE:
    meta['round'] = int(ID[4])
meta['checks'] = results
meta['detected_by'] = sorted({k.split('_')[0] for k, v in results.items() if v['rc'] == 1})
json.dump(meta, open(dst + '/meta.json', 'w'), indent=1)
