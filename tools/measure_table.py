"""print the table of DESIGN.md 10.3 from the committed evidence files"""
import json
import os
ROOT = os.path.dirname(os.path.dirname(os.path.abspath(__file__)))
print('| id | TLC states | replayed evaluations | traces | wall |')
print('|---|---|---|---|---|')
for i in range(1, 21):
    pid = 'C%02d' % i
    e = json.load(open(os.path.join(ROOT, 'evidence', pid + '.json')))
    c = e['coverage']
    kn = c.get('known_findings_observed') or {}
    print('| %s | %s | %s | %s | %.0f s%s |' % (pid, '{:,}'.format(c.get('states', 0)).replace(',', ' '), '{:,}'.format(c.get('evaluations', 0)).replace(',', ' '),
                                                 c.get('traces_validated_against_impl', 0), e.get('wall_s', 0), ' (%d known finding)' % len(kn) if kn else ''))
