#!/bin/sh
# line coverage of /repo/eaopack per quick check (input of tools/mutate.py); 4 checks at a time
# usage: tools/collect_cov.sh [covdir]      (default /tmp/w/cov)
COV=${1:-/tmp/w/cov}
mkdir -p "$COV"
cd "$(dirname "$0")/.."
one() {
  c=$1
  COVERAGE_FILE="$COV/.coverage.$c" /venv/bin/python -m coverage run --include='/repo/eaopack/*' -m checks.run "$c" --tier quick > "$COV/$c.log" 2>&1
  echo "$c rc=$? $(tail -1 "$COV/$c.log" | cut -c1-150)"
}
for grp in "C12 C01 C07 C15" "C02 C03 C11 C13" "C19 C04 C18 C20" "C05 C06 C08 C09" "C10 C14 C16 C17"; do
  for c in $grp; do one $c & done
  wait
done
git -C /repo rev-parse --short HEAD > "$COV/COMMIT"
