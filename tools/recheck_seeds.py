"""Re-run the quick check of each seeded change's property on a scratch copy of /repo's eaopack with the patch applied
(EAO_REPO), plus the check on the unmodified tree is assumed green (run_all).  Updates /verif/seeded/<ID>/meta.json."""
import json
import os
import shutil
import subprocess
import sys
import tempfile
import time

ids = sys.argv[1:] or sorted(d for d in os.listdir('/verif/seeded') if d.startswith('C'))
for ID in ids:
    dst = '/verif/seeded/' + ID
    meta = json.load(open(dst + '/meta.json'))
    D = tempfile.mkdtemp(prefix='eaoseed_')
    try:
        shutil.copytree('/repo/eaopack', D + '/eaopack')
        p = subprocess.run('patch -p1 -s < %s/patch.diff' % dst, shell=True, cwd=D, capture_output=True, text=True)
        if p.returncode != 0:
            print(ID, 'PATCH DOES NOT APPLY to current /repo', p.stdout[-300:])
            meta['applies_to_repo_head'] = False
            json.dump(meta, open(dst + '/meta.json', 'w'), indent=1)
            continue
        t0 = time.time()
        env = dict(os.environ, EAO_REPO=D)
        PROP = ID[:3]
        p = subprocess.run('/venv/bin/python -m checks.run %s --tier quick' % PROP, shell=True, cwd='/verif', capture_output=True, text=True, env=env)
        vio = [l[:500] for l in p.stdout.splitlines() if l.startswith('VIOLATION')]
        meta.setdefault('checks', {})[PROP + '_quick'] = dict(rc=p.returncode, violations=len(vio), first=vio[:2], last=(p.stdout.strip().splitlines() or [''])[-1][:200],
                                                           wall=round(time.time() - t0), repo_head=subprocess.check_output(['git', '-C', '/repo', 'log', '--format=%h', '-1']).decode().strip())
        meta['detected_by'] = sorted({k.split('_')[0] for k, v in meta['checks'].items() if v['rc'] == 1})
        json.dump(meta, open(dst + '/meta.json', 'w'), indent=1)
        print(ID, 'rc=%d' % p.returncode, 'violation lines=%d' % len(vio), '%.0fs' % (time.time() - t0), flush=True)
    finally:
        shutil.rmtree(D, ignore_errors=True)
