import json, os
rows = []
for d in sorted(os.listdir('/verif/seeded')):
    m = json.load(open('/verif/seeded/%s/meta.json' % d))
    c = m.get('checks', {}).get(d + '_quick', {})
    rows.append('| %s | %s | %s | %s | rc=%s, %s violation lines |' % (d, m.get('summary', ''), m.get('needs', ''), 'yes' if m.get('confirmed') else 'NO', c.get('rc'), c.get('violations')))
print('\n'.join(rows))
