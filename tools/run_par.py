"""run registered checks of a tier in parallel (n at a time), one summary line per check:  tools/run_par.py thorough 3 C06 C13 ..."""
import json
import os
import subprocess
import sys
import time
from concurrent.futures import ThreadPoolExecutor

ROOT = os.path.dirname(os.path.dirname(os.path.abspath(__file__)))
tier, n = sys.argv[1], int(sys.argv[2])
ids = sys.argv[3:]
seed = os.environ.get('VERIF_SEED', '0')


def one(cid):
    t0 = time.time()
    p = subprocess.run('/venv/bin/python -m checks.run %s --tier %s' % (cid, tier), shell=True, cwd=ROOT, capture_output=True, text=True,
                       env=dict(os.environ, VERIF_SEED=seed, VERIF_TIER=tier))
    out = p.stdout.splitlines()
    last = [l for l in out if l.strip()][-1:] or ['']
    print('seed=%s %s %s rc=%d %.0fs | %s' % (seed, cid, tier, p.returncode, time.time() - t0, last[0][:170]), flush=True)
    for l in out:
        if l.startswith('VIOLATION') or l.startswith('MACHINERY'):
            print('    ' + l[:500], flush=True)
    if p.returncode == 2:
        print(p.stdout[-1200:], p.stderr[-1200:], flush=True)


with ThreadPoolExecutor(n) as ex:
    list(ex.map(one, ids))
