"""run every registered check (quick tier by default) and print a one-line summary per check"""
import json
import os
import subprocess
import sys
import time

ROOT = os.path.dirname(os.path.dirname(os.path.abspath(__file__)))
tier = sys.argv[1] if len(sys.argv) > 1 else 'quick'
seeds = [int(x) for x in sys.argv[2:]] or [0]
man = json.load(open(os.path.join(ROOT, 'MANIFEST.json')))
for seed in seeds:
    for c in man['checks']:
        cmd = c['quick_cmd'] if tier == 'quick' else c['thorough_cmd']
        t0 = time.time()
        env = dict(os.environ, VERIF_SEED=str(seed), VERIF_TIER=tier)
        p = subprocess.run(cmd, shell=True, cwd=ROOT, capture_output=True, text=True, env=env)
        last = [l for l in p.stdout.splitlines() if l.strip()][-1:] or ['']
        nv = sum(1 for l in p.stdout.splitlines() if l.startswith('VIOLATION'))
        nk = sum(1 for l in p.stdout.splitlines() if l.startswith('KNOWN-FINDING'))
        print('seed=%d %s rc=%d viol_lines=%d known=%d %.0fs | %s' % (seed, c['property_id'], p.returncode, nv, nk, time.time() - t0, last[0][:160]), flush=True)
        if p.returncode != 0:
            for l in p.stdout.splitlines():
                if l.startswith('VIOLATION') or l.startswith('MACHINERY'):
                    print('    ' + l[:600], flush=True)
            if p.returncode == 2:
                print(p.stdout[-1500:], p.stderr[-1500:], flush=True)
