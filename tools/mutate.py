"""Mutation campaign against the quick checks (self-test of the machinery, not a registered check).

  mutate.py gen <N> <seed>       sample N single-site mutants of /repo/eaopack on lines the quick checks execute
                                 (coverage data per check in COVDIR, collected with `coverage run -m checks.run Cxx`)
  mutate.py run <k> [<k> ...]    for each mutant: scratch copy of eaopack + tests, (1) the repository's test suite,
                                 (2) if the tests still pass: the quick checks whose coverage contains the mutated line
                                 (fastest first, stop at the first detection; EAO_REPO points the checks at the copy)
  mutate.py report               table of outcomes

Mutants: comparison boundaries (< <=, > >=, == !=), arithmetic (+ -, * /), and/or, small integer constants (0 1 2),
`not` removed.  A mutant the tests kill is not interesting (the brief asks for changes that pass the tests); a mutant
that survives tests AND checks is either equivalent or a gap -- each one is looked at by hand (DESIGN.md 10.8)."""
import ast
import json
import os
import random
import shutil
import subprocess
import sys
import tempfile
import time

COVDIR = os.environ.get('MUT_COVDIR', '/tmp/w/cov')
OUT = os.environ.get('MUT_OUT', '/tmp/w/mut')
FILES = ['assets.py', 'portfolio.py', 'optimization.py', 'basic_classes.py', 'io.py', 'serialization.py', 'stoch_lin_prog.py']
WALL = {}      # check -> seconds of its quick tier (from the coverage logs)
OLD = {}
COV_COMMIT = os.environ.get('MUT_COV_COMMIT', '')      # commit of /repo the coverage data was collected on

CMP = {ast.Lt: ast.LtE, ast.LtE: ast.Lt, ast.Gt: ast.GtE, ast.GtE: ast.Gt, ast.Eq: ast.NotEq, ast.NotEq: ast.Eq}
BIN = {ast.Add: ast.Sub, ast.Sub: ast.Add, ast.Mult: ast.Div, ast.Div: ast.Mult}


def coverage_map():
    import coverage
    cov = {}
    for f in sorted(os.listdir(COVDIR)):
        if not f.startswith('.coverage.C'):
            continue
        cid = f.split('.')[-1]
        d = coverage.CoverageData(basename=os.path.join(COVDIR, f))
        d.read()
        for fn in d.measured_files():
            base = os.path.basename(fn)
            if base in FILES:
                # the coverage data may be older than the working tree (repairs committed since): lines are matched by their TEXT
                if base not in OLD:
                    OLD[base] = (subprocess.run(['git', '-C', '/repo', 'show', '%s:eaopack/%s' % (COV_COMMIT, base)], capture_output=True, text=True).stdout.splitlines()
                                 if COV_COMMIT else open('/repo/eaopack/' + base).read().splitlines())
                old_src = OLD[base]
                for ln in d.lines(fn) or []:
                    if 0 < ln <= len(old_src):
                        cov.setdefault((base, old_src[ln - 1].strip()), set()).add(cid)
        log = os.path.join(COVDIR, cid + '.log')
        if os.path.exists(log):
            for line in open(log):
                if line.startswith(cid + ' quick:') and 'wall=' in line:
                    WALL[cid] = float(line.split('wall=')[1].split('s')[0])
    return cov


class Sites(ast.NodeVisitor):
    def __init__(self):
        self.sites = []
        self.in_doc = False

    def visit_Compare(self, node):
        for k, op in enumerate(node.ops):
            if type(op) in CMP:
                self.sites.append((node.lineno, node.col_offset, 'cmp', k))
        self.generic_visit(node)

    def visit_BinOp(self, node):
        if type(node.op) in BIN and not any(isinstance(x, ast.Constant) and isinstance(x.value, str) for x in (node.left, node.right)):
            self.sites.append((node.lineno, node.col_offset, 'bin', 0))
        self.generic_visit(node)

    def visit_BoolOp(self, node):
        self.sites.append((node.lineno, node.col_offset, 'bool', 0))
        self.generic_visit(node)

    def visit_UnaryOp(self, node):
        if isinstance(node.op, ast.Not):
            self.sites.append((node.lineno, node.col_offset, 'not', 0))
        self.generic_visit(node)

    def visit_Constant(self, node):
        if type(node.value) is int and node.value in (0, 1, 2):
            self.sites.append((node.lineno, node.col_offset, 'const', 0))


class Apply(ast.NodeTransformer):
    def __init__(self, site):
        self.site = site
        self.done = False

    def hit(self, node, kind):
        return (not self.done) and (node.lineno, node.col_offset, kind) == tuple(self.site[:3])

    def visit_Compare(self, node):
        if self.hit(node, 'cmp'):
            k = self.site[3]
            node.ops[k] = CMP[type(node.ops[k])]()
            self.done = True
            return node
        return self.generic_visit(node)

    def visit_BinOp(self, node):
        if self.hit(node, 'bin'):
            node.op = BIN[type(node.op)]()
            self.done = True
            return node
        return self.generic_visit(node)

    def visit_BoolOp(self, node):
        if self.hit(node, 'bool'):
            node.op = ast.Or() if isinstance(node.op, ast.And) else ast.And()
            self.done = True
            return node
        return self.generic_visit(node)

    def visit_UnaryOp(self, node):
        if self.hit(node, 'not'):
            self.done = True
            return node.operand
        return self.generic_visit(node)

    def visit_Constant(self, node):
        if self.hit(node, 'const'):
            self.done = True
            return ast.copy_location(ast.Constant({0: 1, 1: 0, 2: 1}[node.value]), node)
        return node


def gen(n, seed):
    cov = coverage_map()
    rnd = random.Random(seed)
    sites = []
    for f in FILES:
        src = open('/repo/eaopack/' + f).read()
        tree = ast.parse(src)
        v = Sites()
        v.visit(tree)
        lines = src.splitlines()
        for s in v.sites:
            ln = s[0]
            text = lines[ln - 1].strip()
            if (f, lines[ln - 1].strip()) not in cov:
                continue
            if text.startswith(('assert', 'raise', 'warn', 'print', '#')) or 'warn' in text or 'ValueError' in text or 'isinstance' in text:
                continue
            sites.append(dict(file=f, site=list(s), line=text[:160], checks=sorted(cov[(f, lines[ln - 1].strip())])))
    rnd.shuffle(sites)
    # at most two mutants per source line, spread over files
    seen = {}
    plan = []
    for s in sites:
        k = (s['file'], s['site'][0])
        if seen.get(k, 0) >= 1:
            continue
        seen[k] = seen.get(k, 0) + 1
        plan.append(s)
        if len(plan) >= n:
            break
    os.makedirs(OUT, exist_ok=True)
    json.dump(dict(seed=seed, wall=WALL, plan=plan), open(os.path.join(OUT, 'plan.json'), 'w'), indent=1)
    print('planned %d mutants out of %d covered sites' % (len(plan), len(sites)))


def run(ks):
    P = json.load(open(os.path.join(OUT, 'plan.json')))
    wall = P['wall']
    for k in ks:
        m = P['plan'][k]
        res = dict(k=k, **m)
        D = tempfile.mkdtemp(prefix='eaomut_')
        try:
            shutil.copytree('/repo/eaopack', D + '/eaopack')
            shutil.copytree('/repo/tests', D + '/tests')
            for extra in ('setup.py', 'setup.cfg', 'pyproject.toml', 'conftest.py', 'pytest.ini', 'tox.ini'):
                if os.path.exists('/repo/' + extra):
                    shutil.copy('/repo/' + extra, D)
            path = D + '/eaopack/' + m['file']
            tree = ast.parse(open(path).read())
            ap = Apply(m['site'])
            tree = ap.visit(tree)
            ast.fix_missing_locations(tree)
            if not ap.done:
                res['outcome'] = 'not_applied'
                continue
            open(path, 'w').write(ast.unparse(tree))
            t0 = time.time()
            p = subprocess.run('/venv/bin/python -m pytest -q -x -p no:cacheprovider --timeout=900 tests 2>&1 | tail -n 3', shell=True, cwd=D, capture_output=True, text=True)
            res['tests'] = p.stdout.strip().splitlines()[-1:] if p.stdout.strip() else ['?']
            res['tests_wall'] = round(time.time() - t0)
            if not any(' passed' in l and 'failed' not in l and 'error' not in l for l in res['tests']):
                res['outcome'] = 'killed_by_tests'
                continue
            res['outcome'] = 'SURVIVED'
            res['ran'] = []
            for cid in sorted(m['checks'], key=lambda c: wall.get(c, 999)):
                t0 = time.time()
                p = subprocess.run('/venv/bin/python -m checks.run %s --tier quick' % cid, shell=True, cwd='/verif', capture_output=True, text=True,
                                   env=dict(os.environ, EAO_REPO=D))
                vio = [l[:300] for l in p.stdout.splitlines() if l.startswith('VIOLATION')]
                res['ran'].append(dict(check=cid, rc=p.returncode, violations=len(vio), first=vio[:1], wall=round(time.time() - t0),
                                       tail=(p.stdout.strip().splitlines() or [''])[-1][:200] if p.returncode not in (0, 1) else ''))
                if p.returncode == 1:
                    res['outcome'] = 'detected_by_' + cid
                    break
        finally:
            shutil.rmtree(D, ignore_errors=True)
            json.dump(res, open(os.path.join(OUT, 'res_%03d.json' % k), 'w'), indent=1)
            print(k, m['file'], m['site'], res.get('outcome'), flush=True)


def report():
    import collections
    rows = []
    for f in sorted(os.listdir(OUT)):
        if f.startswith('res_'):
            rows.append(json.load(open(os.path.join(OUT, f))))
    c = collections.Counter(r['outcome'].split('_by_')[0] for r in rows)
    print(dict(c))
    for r in rows:
        if r['outcome'] == 'SURVIVED':
            print('SURVIVED', r['k'], r['file'], r['site'], r['line'], [(x['check'], x['rc']) for x in r.get('ran', [])])


if __name__ == '__main__':
    if sys.argv[1] == 'gen':
        gen(int(sys.argv[2]), int(sys.argv[3]))
    elif sys.argv[1] == 'run':
        run([int(x) for x in sys.argv[2:]])
    else:
        report()
