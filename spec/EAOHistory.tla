----------------------------- MODULE EAOHistory -----------------------------
(***************************************************************************)
(* Object lifecycle / call histories (C10, C11).                           *)
(*                                                                         *)
(* The specification of every public call is a PURE function of its        *)
(* arguments: it returns Fresh(call, arguments) -- what brand-new objects  *)
(* return for the same arguments -- or a documented error (an asset asked  *)
(* to set up without ever having been given a grid).  What the objects     *)
(* keep between calls therefore must not matter.  The variables below      *)
(* model what the IMPLEMENTATION keeps, faithfully, including the sharing  *)
(* it does on purpose (all assets of a portfolio point to the portfolio's  *)
(* grid object and overwrite its restricted sub-grid; parameter            *)
(* dictionaries are normalised in place).  The model is used              *)
(*   - to enumerate call histories with state-based reduction: TLC         *)
(*     explores the state graph; the harness derives from it all           *)
(*     histories up to a depth, one test per transition (shortest path to  *)
(*     the source state, then the action) and random walks;                *)
(*   - to say which grid an asset / the portfolio refers to when a call    *)
(*     passes no grid (needed to state Fresh for such calls);              *)
(*   - to localise a leak: after each call the harness compares the        *)
(*     projected implementation state with these variables (diagnostic     *)
(*     only -- the violation criterion is the returned problem).           *)
(*                                                                         *)
(* Universe: assets of one portfolio (with different windows / parameter   *)
(* forms), grids (different horizon, zone, frequency), price sets.         *)
(***************************************************************************)
EXTENDS Integers, Sequences, FiniteSets, TLC

CONSTANTS Assets,      \* e.g. {"a1", "a2"}
          Grids,       \* e.g. {"g1", "g2", "gz", "gf"}
          Zone,        \* function grid -> "naive" | "cet"
          Prices,      \* e.g. {"p1", "p2"}
          LastAsset,   \* the asset given last to the portfolio
          DictAssets,  \* assets having a parameter given as interval dictionary with naive dates
          MaxDepth
None == "none"

VARIABLES agrid,     \* asset -> grid object it points to (None: never given one)
          pgrid,     \* grid of the portfolio
          rest,      \* grid -> whose window is in grid.restricted (asset | "full" | None)
          form,      \* asset in DictAssets -> "raw" | "listified" | "localised"  (state of the user's dictionary)
          lastop,    \* None | "mono" | "split"  : kind of the last portfolio problem (for optimise / output)
          saved,     \* set of assets of which a JSON copy was taken and re-loaded
          depth
vars == <<agrid, pgrid, rest, form, lastop, saved, depth>>

Init == /\ agrid = [a \in Assets |-> None] /\ pgrid = None
        /\ rest = [g \in Grids |-> None]
        /\ form = [a \in DictAssets |-> "raw"]
        /\ lastop = None /\ saved = {} /\ depth = 0

\* what casting a naive-date dictionary onto grid g does to the user's dictionary (in place)
FormAfter(a, g) == IF a \notin DictAssets THEN "raw"
                   ELSE IF Zone[g] = "cet" THEN "localised"
                   ELSE IF form[a] = "localised" THEN "localised" ELSE "listified"
Forms(S, g) == [a \in DictAssets |-> IF a \in S THEN FormAfter(a, g) ELSE form[a]]

\* ---- calls.  Expected result (the specification): Fresh(call, args) unless stated otherwise.
AssetSetup(a, g, p) ==            \* a.setup_optim_problem(prices p, timegrid g)
  /\ depth < MaxDepth
  /\ agrid' = [agrid EXCEPT ![a] = g]
  /\ rest'  = [rest EXCEPT ![g] = a]
  /\ form'  = Forms({a}, g)
  /\ depth' = depth + 1 /\ UNCHANGED <<pgrid, lastop, saved>>

AssetSetupNoGrid(a, p) ==         \* a.setup_optim_problem(prices p) : uses the grid set before; an error if there is none
  /\ depth < MaxDepth
  /\ IF agrid[a] = None THEN UNCHANGED <<rest, form>>
     ELSE /\ rest' = rest      \* (the implementation does NOT re-restrict the shared grid here: deviation made visible by StateProj)
          /\ form' = Forms({a}, agrid[a])
  /\ depth' = depth + 1 /\ UNCHANGED <<agrid, pgrid, lastop, saved>>

PortfolioSetup(g, p) ==           \* portfolio.setup_optim_problem(p, g): every asset is set up on the portfolio's grid, in order
  /\ depth < MaxDepth
  /\ pgrid' = g
  /\ agrid' = [a \in Assets |-> g]
  /\ rest'  = [rest EXCEPT ![g] = LastAsset]    \* the last asset's window stays
  /\ form'  = Forms(DictAssets, g)
  /\ lastop' = "mono"
  /\ depth' = depth + 1 /\ UNCHANGED saved

PortfolioSetupNoGrid(p) ==
  /\ depth < MaxDepth /\ pgrid # None
  /\ agrid' = [a \in Assets |-> pgrid]
  /\ rest'  = [rest EXCEPT ![pgrid] = LastAsset]
  /\ form'  = Forms(DictAssets, pgrid)
  /\ lastop' = "mono"
  /\ depth' = depth + 1 /\ UNCHANGED <<pgrid, saved>>

PortfolioSplit(g, p) ==           \* setup_split_optim_problem: interval grids, afterwards every asset is reset to g
  /\ depth < MaxDepth
  /\ pgrid' = g
  /\ agrid' = [a \in Assets |-> g]
  /\ rest'  = [rest EXCEPT ![g] = LastAsset]
  /\ form'  = Forms(DictAssets, g)
  /\ lastop' = "split"
  /\ depth' = depth + 1 /\ UNCHANGED saved

CostSamples(g) ==                 \* portfolio.create_cost_samples(all price sets, g): cost vectors only -- the route of robust /
  /\ depth < MaxDepth              \* stochastic optimisation; every asset is set up on g exactly as in PortfolioSetup
  /\ pgrid' = g
  /\ agrid' = [a \in Assets |-> g]
  /\ rest'  = [rest EXCEPT ![g] = LastAsset]
  /\ form'  = Forms(DictAssets, g)
  /\ depth' = depth + 1 /\ UNCHANGED <<lastop, saved>>

\* Optimising the last portfolio problem is a function of that problem alone.  The output tables (extract_output) are
\* computed from the problem, the result AND the asset objects; they are specified only while every asset still refers
\* to the grid the problem was built on (an asset set up on another grid in between describes another problem: the
\* listed property speaks about the problems set-up calls return, not about tables extracted with re-targeted objects).
OutputDefined == \A a \in Assets : agrid[a] = pgrid
Optimize ==                       \* optimise the last portfolio problem; extract the output tables where OutputDefined
  /\ depth < MaxDepth /\ lastop # None
  /\ depth' = depth + 1 /\ UNCHANGED <<agrid, pgrid, rest, form, lastop, saved>>

SaveLoad(a) ==                    \* to_json / load_from_json of an asset: the copy must behave like the original (C11)
  /\ depth < MaxDepth
  /\ saved' = saved \cup {a}
  /\ depth' = depth + 1 /\ UNCHANGED <<agrid, pgrid, rest, form, lastop>>

Next == \/ \E a \in Assets, g \in Grids, p \in Prices : AssetSetup(a, g, p)
        \/ \E a \in Assets, p \in Prices : AssetSetupNoGrid(a, p)
        \/ \E g \in Grids, p \in Prices : PortfolioSetup(g, p)
        \/ \E p \in Prices : PortfolioSetupNoGrid(p)
        \/ \E g \in Grids, p \in Prices : PortfolioSplit(g, p)
        \/ \E g \in Grids : CostSamples(g)
        \/ Optimize
        \/ \E a \in Assets : SaveLoad(a)
Spec == Init /\ [][Next]_vars

\* ---- properties of the model itself
TypeOK == /\ \A a \in Assets : agrid[a] \in Grids \cup {None}
          /\ pgrid \in Grids \cup {None}
\* an asset set up through the portfolio points to the portfolio's grid
PortfolioOwnsGrid == lastop # None => pgrid # None
\* the user's dictionary never returns to its raw form once touched (the leak the harness looks for in later calls)
FormMonotone == [][\A a \in DictAssets : form[a] # "raw" => form'[a] # "raw"]_vars
\* the abstract state without the depth counter (for state-based reduction of histories)
View == <<agrid, pgrid, rest, form, lastop, saved>>
=============================================================================
