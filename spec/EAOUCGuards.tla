----------------------------- MODULE EAOUCGuards -----------------------------
(***************************************************************************)
(* Unit commitment of a Plant / CHP as a plain automaton (C06).            *)
(*                                                                         *)
(* State: on/off, how long (ticks) it has been in that state, the last     *)
(* virtual output.  One step = one of                                      *)
(*      StayOff, Start (only after the minimum downtime),                  *)
(*      StayOn,  Stop  (only after the minimum runtime)                    *)
(* together with an output: zero when off; when on the virtual output      *)
(* (power + conv * heat) lies in [lo, hi] * dt; it changes by at most      *)
(* ramp * dt between consecutive steps, the first step relative to the     *)
(* last dispatch; heat <= share * power.  A start is flagged exactly at    *)
(* off -> on transitions and costs start costs and start fuel; fuel drawn  *)
(* = virtual output / fuel efficiency + consumption when on + start fuel.  *)
(*                                                                         *)
(* UCStep is a pure operator (configuration, scale K, tolerance, state,    *)
(* move) -> result, used by the enumerating model below (K = 1, tol = 0)   *)
(* and by Trace_EAOUnitCommit for what the implementation returned.        *)
(*                                                                         *)
(* Configuration c: T, d (ticks per step), lo[], hi[] (rate per tick),     *)
(*   price[], ramp (rate per tick per step, -1: none), minrun, mindown,    *)
(*   run0, off0 (ticks), last0 (rate), startcost[], runcost (per tick),    *)
(*   heat (BOOLEAN), conv <<n,d>>, share <<n,d>>, fuel (BOOLEAN),          *)
(*   feff <<n,d>>, fuelon (per tick), fuelstart, q (lattice step),         *)
(*   mlthr (threshold rate), mlcost (cost per tick below the threshold)    *)
(* Money is kept times c.conv[2]; fuel times c.feff[1] * c.conv[2].        *)
(***************************************************************************)
EXTENDS Integers, Sequences, FiniteSets, TLC, Json

Abs(x) == IF x < 0 THEN -x ELSE x
Within(x, lo, hi, tol) == x >= lo - tol /\ x <= hi + tol
BIG == 1000000

InitUC(c, K) == [on   |-> c.run0 > 0,
                 dur  |-> IF c.run0 > 0 THEN c.run0 ELSE IF c.off0 > 0 THEN c.off0 ELSE BIG,
                 last |-> c.last0 * c.d * c.conv[2] * K]     \* virtual output * conv[2] (K-scaled)

\* move m = [on: BOOLEAN, start: BOOLEAN, p: power volume, h: heat volume]   (K-scaled volumes)
UCStep(c, K, tol, s, st, m) ==
  LET cd    == c.conv[2]
      virt  == m.p * cd + c.conv[1] * m.h                       \* virtual output * cd
      trans == m.on /\ ~st.on                                    \* off -> on transition
      auto  == IF m.on /\ ~st.on /\ st.dur < c.mindown THEN "min_down"
               ELSE IF ~m.on /\ st.on /\ st.dur < c.minrun THEN "min_run"
               ELSE ""
      \* a transition without flag is impossible; a flag without transition is merely never optimal (it costs
      \* start costs / start fuel), so the two directions carry different names
      flag  == IF trans /\ ~m.start THEN "start_flag_missing" ELSE IF m.start /\ ~trans THEN "start_flag_spurious" ELSE ""
      outp  == IF ~m.on THEN (IF Abs(m.p) <= tol /\ Abs(m.h) <= tol THEN "" ELSE "off_output")
               ELSE IF m.p < -tol \/ m.h < -tol THEN "negative_output"
               ELSE IF ~Within(virt, c.lo[s] * c.d * cd * K, c.hi[s] * c.d * cd * K, tol * (cd + c.conv[1])) THEN "cap"
               ELSE ""
      rmp   == IF c.ramp >= 0 /\ Abs(virt - st.last) > c.ramp * c.d * cd * K + tol * (cd + c.conv[1]) * 2 THEN "ramp" ELSE ""
      heat  == IF c.heat /\ m.h * c.share[2] > c.share[1] * m.p + tol * (c.share[1] + c.share[2]) THEN "heat_share" ELSE ""
      bads  == SelectSeq(<<auto, flag, outp, rmp, heat>>, LAMBDA x : x # "")
      dnew  == IF m.on = st.on THEN (IF st.dur >= BIG THEN BIG ELSE st.dur + c.d) ELSE c.d
  IN [bad  |-> IF bads = <<>> THEN "" ELSE bads[1],
      st   |-> [on |-> m.on, dur |-> dnew, last |-> virt],
      \* cost * cd : price on the virtual output, running cost per tick when on, start cost at a start
      \* minimum-load costs (CHPAsset_with_min_load_costs): a fixed amount per tick whenever the plant is on with a power output below the threshold
      cost |-> c.price[s] * virt + (IF m.on THEN c.runcost * c.d * cd * K ELSE 0) + (IF m.start THEN c.startcost[s] * cd * K ELSE 0)
               + (IF m.on /\ c.mlcost > 0 /\ m.p < c.mlthr * c.d * K - tol THEN c.mlcost * c.d * cd * K ELSE 0),
      \* fuel drawn * feff[1] * cd
      fuel |-> IF ~c.fuel THEN 0
               ELSE virt * c.feff[2] + (IF m.on THEN c.fuelon * c.d * K ELSE 0) * c.feff[1] * cd
                    + (IF m.start THEN c.fuelstart * K ELSE 0) * c.feff[1] * cd]
=============================================================================
