----------------------------- MODULE EAOScenario -----------------------------
(***************************************************************************)
(* Two-stage stochastic and robust problems over the reference semantics   *)
(* of EAOGuards (C17).                                                     *)
(*                                                                         *)
(* A configuration additionally has                                        *)
(*   stage : the first FUTURE step (present = steps 1..stage-1)            *)
(*   scen  : sequence of scenarios; scen[k][i] = price vector of asset i   *)
(*           in scenario k (<<>> for assets without scenario prices);      *)
(*           all scenarios share the present prices.                       *)
(*                                                                         *)
(* Mode "slp" (two-stage stochastic): the present moves are common to all  *)
(* scenarios; at the stage boundary the state FORKS into one copy per      *)
(* scenario, each evolving under its own prices; value = present + mean of *)
(* the futures.  The fork is explored sequentially: after the future of    *)
(* scenario k is complete the state at the boundary is restored and the    *)
(* future of scenario k+1 is played.  Because the futures are independent  *)
(* given the present, the value of the future is kept separately (fval)    *)
(* and reset at the restore, so that all futures of scenario k lead to the *)
(* same restored state: TLC explores the SUM, not the product, of the      *)
(* futures.  Every completed future is emitted; the value of a present     *)
(* schedule is  val + mean over k of the best fval  (aggregated by the     *)
(* harness).                                                               *)
(*                                                                         *)
(* Mode "robust": ONE common schedule for the whole horizon, valued under  *)
(* every scenario at once (vector of values); its worth is the minimum.    *)
(*                                                                         *)
(* Emitted per complete behaviour (values only):                           *)
(*   <<"FUT", [id, k, pval, fval, pres]>>   (values * DEN * VS)             *)
(*   <<"ROB", id, <<val_1, .., val_NS>>>>   (each * DEN * VS)               *)
(***************************************************************************)
EXTENDS EAOGuards, Json

CONSTANTS Configs, Mode

VARIABLES cfg, t, k, sub, saved, val, fval, vals, pres
vars == <<cfg, t, k, sub, saved, val, fval, vals, pres>>

NA == Len(cfg.assets)
NS == Len(cfg.scen)
\* asset i as seen in scenario kk (prices overridden where the scenario has some)
AS(i, kk) == IF cfg.scen[kk][i] = <<>> THEN cfg.assets[i] ELSE [cfg.assets[i] EXCEPT !.price = cfg.scen[kk][i]]

Cand(lo, hi, q) == { x \in lo..hi : x = lo \/ x = hi \/ x % q = 0 }
LegTuples(a, s) ==
  IF ~Active(cfg, a, s) THEN { [j \in 1..NLegs(a) |-> 0] }
  ELSE LET d == cfg.dt[s] IN
  CASE a.kind = "contract" ->
         IF a.ec = 0 THEN { <<Min2(q, 0), Max2(q, 0)>> : q \in Cand(a.lo[s] * d, a.hi[s] * d, a.q) }
         ELSE { <<x, y>> : x \in Cand(Min2(0, a.lo[s]) * d, Min2(0, a.hi[s]) * d, a.q), y \in Cand(Max2(0, a.lo[s]) * d, Max2(0, a.hi[s]) * d, a.q) }
    [] a.kind = "transport" -> { <<x>> : x \in Cand(a.lo * d, a.hi * d, a.q) }
    [] a.kind = "storage" ->
         IF a.eff = <<1, 1>> /\ a.costin = 0 /\ a.costout = 0 /\ a.nin = a.nout
         THEN { <<Min2(q, 0), Max2(q, 0)>> : q \in Cand(-a.cin * d, a.cout * d, a.q) }
         ELSE { <<x, y>> : x \in Cand(-a.cin * d, 0, a.q), y \in Cand(0, a.cout * d, a.q) }

RECURSIVE Joint(_, _, _)
Joint(n, s, kk) ==
  IF n = 0 THEN { <<>> }
  ELSE { Append(j, m) : j \in Joint(n - 1, s, kk),
         m \in { mm \in { [legs |-> lg, r |-> AssetStep(cfg, 1, 0, AS(n, kk), s, lg, sub[n], <<>>)] : lg \in LegTuples(cfg.assets[n], s) } : mm.r.bad = "" } }
Res(j) == [i \in 1..Len(j) |-> j[i].r]

Init == /\ cfg \in Configs /\ t = 1 /\ k = 1 /\ val = 0 /\ fval = 0 /\ pres = <<>>
        /\ sub = [i \in 1..Len(cfg.assets) |-> InitSub(cfg.assets[i])]
        /\ saved = <<>>
        /\ vals = [kk \in 1..Len(cfg.scen) |-> 0]

\* ---- two-stage stochastic
StepSLP ==
  /\ Mode = "slp" /\ t <= cfg.T
  /\ \E j \in Joint(NA, t, k) :
       /\ Imbalanced(cfg, Res(j), 0) = {}
       /\ sub' = [i \in 1..NA |-> j[i].r.st]
       /\ val'  = IF t < cfg.stage THEN val - SeqSum([i \in 1..NA |-> j[i].r.cost]) ELSE val
       /\ fval' = IF t < cfg.stage THEN 0 ELSE fval - SeqSum([i \in 1..NA |-> j[i].r.cost])
       /\ pres' = IF t < cfg.stage THEN Append(pres, [i \in 1..NA |-> j[i].legs]) ELSE pres
       \* entering the future for the first time: remember the state at the boundary
       /\ saved' = IF t + 1 = cfg.stage /\ k = 1 THEN [i \in 1..NA |-> j[i].r.st] ELSE saved
  /\ t' = t + 1 /\ UNCHANGED <<cfg, k, vals>>
NextScenario ==
  /\ Mode = "slp" /\ t = cfg.T + 1 /\ k < NS
  /\ k' = k + 1 /\ t' = cfg.stage /\ fval' = 0
  /\ sub' = IF cfg.stage = 1 THEN [i \in 1..NA |-> InitSub(cfg.assets[i])] ELSE saved
  /\ UNCHANGED <<cfg, saved, val, vals, pres>>
FutureDone == Mode = "slp" /\ t = cfg.T + 1

\* ---- robust: one schedule, valued under every scenario
StepRobust ==
  /\ Mode = "robust" /\ t <= cfg.T
  /\ \E j \in Joint(NA, t, 1) :
       /\ Imbalanced(cfg, Res(j), 0) = {}
       /\ sub' = [i \in 1..NA |-> j[i].r.st]
       /\ vals' = [kk \in 1..NS |-> vals[kk] - SeqSum([i \in 1..NA |->
                       AssetStep(cfg, 1, 0, AS(i, kk), t, j[i].legs, sub[i], <<>>).cost])]
  /\ t' = t + 1 /\ UNCHANGED <<cfg, k, saved, val, fval, pres>>
CompleteRobust == Mode = "robust" /\ t = cfg.T + 1

Next == StepSLP \/ NextScenario \/ StepRobust
Spec == Init /\ [][Next]_vars

\* present prices are shared by all scenarios (hypothesis of C17)
PresentShared == \A kk \in 1..NS : \A i \in 1..NA :
                    cfg.scen[kk][i] # <<>> => \A s \in 1..(cfg.stage - 1) : cfg.scen[kk][i][s] = cfg.scen[1][i][s]
\* the present schedule recorded for the scenarios is ONE schedule (it is never re-chosen after the fork)
PresentCommon == (Mode = "slp" /\ k > 1) => Len(pres) = cfg.stage - 1

Emit == /\ FutureDone => PrintT(<<"FUT", ToJson([id |-> cfg.id, k |-> k, pval |-> val, fval |-> fval, pres |-> pres])>>)
        /\ CompleteRobust => PrintT(<<"ROB", cfg.id, vals>>)
=============================================================================
