-------------------------- MODULE Trace_EAOAssembly --------------------------
(***************************************************************************)
(* C07 / C15 decided on assembly traces recorded from the real code: the   *)
(* per-asset problems (each asset's own set-up) and the assembled problem  *)
(* are logged as small tables; TLC evaluates every clause of "the mapping  *)
(* is a faithful description of the assembled problem" on them.            *)
(*                                                                         *)
(* Trace (numbers in fixed point):                                         *)
(*  T, assets: seq of [n, nc, nl, nu, ncols, c, l, u,                      *)
(*                     sig : per local label, seq of <<node,step,type,var>>*)
(*                     rows: seq of [cls, b, cols: seq of <<lab, coef>>],  *)
(*                     phi : per local label, its global label (-1: none)] *)
(*  g: [n, nc, nl, nu, ncols, c, l, u, nan,                                *)
(*      maprows: seq of [lab, asset, node, step, type, var, df],           *)
(*      rows   : seq of [cls, b, cols]   (asset rows, without nodal rows)  *)
(*      nodal  : seq of [node, step, b, cols]]                             *)
(*  fix: <<>> or [win: seq of steps, x, l0, u0, l1, u1]                    *)
(* Verdict of trace i in TLC register i: <<1,"accepted">> / <<1, clause>>. *)
(***************************************************************************)
EXTENDS Integers, Sequences, FiniteSets, TLC, Json, IOUtils, SequencesExt

Traces == ndJsonDeserialize(IOEnv.TRACE_FILE)
ASSUME \A i \in 1..Len(Traces) : TLCSet(i, <<0, "init">>)
VARIABLES tid, done, why
vars == <<tid, done, why>>
Tr == Traces[tid]
G  == Tr.g
NAs == Len(Tr.assets)
Labels == 0..(G.n - 1)
Rows(g) == { k \in 1..Len(G.maprows) : G.maprows[k].lab = g }
Cols(r) == { r.cols[j][1] : j \in 1..Len(r.cols) }
ColSet(r) == { <<r.cols[j][1], r.cols[j][2]>> : j \in 1..Len(r.cols) }
RECURSIVE SumOver(_, _)
SumOver(f, S) == IF S = {} THEN 0 ELSE LET x == CHOOSE y \in S : TRUE IN f[x] + SumOver(f, S \ {x})

SizeOK ==
  /\ G.nc = G.n /\ G.nl = G.n /\ G.nu = G.n /\ (G.ncols = G.n \/ G.ncols = -1)
  /\ \A k \in 1..NAs : LET a == Tr.assets[k] IN a.nc = a.n /\ a.nl = a.n /\ a.nu = a.n /\ (a.ncols = a.n \/ a.ncols = -1)
LabelRangeOK == \A k \in 1..Len(G.maprows) : G.maprows[k].lab \in Labels
StepOK == \A k \in 1..Len(G.maprows) : G.maprows[k].step >= 0 /\ G.maprows[k].step < Tr.T
BoundsOK == ~G.nan /\ \A g \in Labels : G.l[g + 1] <= G.u[g + 1]

\* every mapped local variable of every asset has a global label carrying exactly its rows, cost and bounds
OwnerOK ==
  \A k \in 1..NAs : LET a == Tr.assets[k] IN
    \A i \in 1..a.n :
      a.sig[i] # <<>> =>
        LET g == a.phi[i] IN
        /\ g \in Labels
        /\ { <<G.maprows[r].node, G.maprows[r].step, G.maprows[r].type, G.maprows[r].var>> : r \in { rr \in Rows(g) : G.maprows[rr].asset = k } }
             = { <<a.sig[i][j][1], a.sig[i][j][2], a.sig[i][j][3], a.sig[i][j][4]>> : j \in 1..Len(a.sig[i]) }
        /\ \A r \in Rows(g) : G.maprows[r].asset = k
        /\ G.c[g + 1] = a.c[i] /\ G.l[g + 1] = a.l[i] /\ G.u[g + 1] = a.u[i]
PhiInjective ==
  \A k1, k2 \in 1..NAs : \A i1 \in 1..Tr.assets[k1].n : \A i2 \in 1..Tr.assets[k2].n :
     (<<k1, i1>> # <<k2, i2>> /\ Tr.assets[k1].phi[i1] >= 0) => Tr.assets[k1].phi[i1] # Tr.assets[k2].phi[i2]
EveryRowOwned ==
  \A r \in 1..Len(G.maprows) : \E i \in 1..Tr.assets[G.maprows[r].asset].n : Tr.assets[G.maprows[r].asset].phi[i] = G.maprows[r].lab

\* a dispatch row names a node its asset was declared with (the declaration is independent of the set-up code)
NodeDeclaredOK ==
  \A r \in 1..Len(G.maprows) :
     (G.maprows[r].type = "d" /\ G.maprows[r].asset \in 1..NAs /\ "nodes" \in DOMAIN Tr.assets[G.maprows[r].asset])
        => G.maprows[r].node \in ToSet(Tr.assets[G.maprows[r].asset].nodes)

\* every row of an asset names a step inside the window the asset was DECLARED with (start / end as given by the user, clipped to the
\* grid; computed by the harness from the declaration and the grid points, independently of any set-up code)
StepInWindowOK ==
  \A r \in 1..Len(G.maprows) :
     (G.maprows[r].asset \in 1..NAs /\ "win" \in DOMAIN Tr.assets[G.maprows[r].asset])
        => (G.maprows[r].step >= Tr.assets[G.maprows[r].asset].win[1] /\ G.maprows[r].step < Tr.assets[G.maprows[r].asset].win[2])

\* ... and an asset that dispatches at all dispatches at every node it was declared with
NodesCoveredOK ==
  \A k \in 1..NAs : ("nodes" \in DOMAIN Tr.assets[k]) =>
     LET D == { r \in 1..Len(G.maprows) : G.maprows[r].type = "d" /\ G.maprows[r].asset = k } IN
     D # {} => \A n \in ToSet(Tr.assets[k].nodes) : \E r \in D : G.maprows[r].node = n

\* the asset's restrictions are embedded on its own variables
RowsEmbeddedOK ==
  LET emb == UNION { { [cls |-> a.rows[j].cls, b |-> a.rows[j].b,
                        cols |-> { <<a.phi[a.rows[j].cols[m][1] + 1], a.rows[j].cols[m][2]>> : m \in 1..Len(a.rows[j].cols) }]
                       : j \in 1..Len(a.rows) } : a \in { Tr.assets[k] : k \in 1..NAs } }
      glob == { [cls |-> G.rows[j].cls, b |-> G.rows[j].b, cols |-> ColSet(G.rows[j])] : j \in 1..Len(G.rows) }
      count == SumOver([k \in 1..NAs |-> Len(Tr.assets[k].rows)], 1..NAs)
  IN emb = glob /\ Len(G.rows) = count

\* a variable without any mapping row has zero cost and occurs in no restriction
UnmappedInertOK ==
  \A g \in Labels : Rows(g) = {} =>
     /\ G.c[g + 1] = 0
     /\ \A j \in 1..Len(G.rows) : g \notin Cols(G.rows[j])
     /\ \A j \in 1..Len(G.nodal) : g \notin Cols(G.nodal[j])

\* exactly one nodal row per (node, step) that has dispatch, balancing exactly the dispatch rows (weighted)
DispAt(n, s) == { k \in 1..Len(G.maprows) : G.maprows[k].type = "d" /\ G.maprows[k].node = n /\ G.maprows[k].step = s }
NodalOK ==
  /\ \A k \in 1..Len(G.maprows) : G.maprows[k].type = "d" =>
        Cardinality({ j \in 1..Len(G.nodal) : G.nodal[j].node = G.maprows[k].node /\ G.nodal[j].step = G.maprows[k].step }) = 1
  /\ \A j \in 1..Len(G.nodal) :
        LET nd == G.nodal[j] D == DispAt(nd.node, nd.step) IN
        /\ D # {} /\ nd.b = 0
        /\ Cols(nd) = { G.maprows[k].lab : k \in D }
        /\ \A m \in 1..Len(nd.cols) :
              nd.cols[m][2] = SumOver([k \in 1..Len(G.maprows) |-> G.maprows[k].df], { k \in D : G.maprows[k].lab = nd.cols[m][1] })

\* C15: fixing a window pins exactly the variables that have a mapping row with a step in the window
FixOK ==
  Tr.fix = <<>> \/
  LET F == Tr.fix W == ToSet(F.win) IN
  \A g \in Labels :
    IF \E r \in Rows(g) : G.maprows[r].step \in W
    THEN F.l1[g + 1] = F.x[g + 1] /\ F.u1[g + 1] = F.x[g + 1]
    ELSE F.l1[g + 1] = F.l0[g + 1] /\ F.u1[g + 1] = F.u0[g + 1]

Clauses == << <<"size", SizeOK>>, <<"label_range", LabelRangeOK>>, <<"step_on_grid", StepOK>>, <<"bounds_nan", BoundsOK>>,
              <<"owner", OwnerOK>>, <<"label_injective", PhiInjective>>, <<"row_owned", EveryRowOwned>>, <<"node_declared", NodeDeclaredOK>>, <<"nodes_covered", NodesCoveredOK>>, <<"step_in_window", StepInWindowOK>>,
              <<"rows_embedded", RowsEmbeddedOK>>, <<"unmapped_inert", UnmappedInertOK>>, <<"nodal_rows", NodalOK>>,
              <<"fix_window", FixOK>> >>
FirstFailed == LET bad == SelectSeq(Clauses, LAMBDA c : ~c[2]) IN IF bad = <<>> THEN "" ELSE bad[1][1]

Init == tid \in 1..Len(Traces) /\ done = FALSE /\ why = ""
Check == /\ ~done /\ done' = TRUE /\ UNCHANGED tid
         \* label range first: the other clauses index by label
         \* (traces recorded for C15 carry the global tables only: mode = "fix" evaluates the fix clause alone)
         \* (mode = "global": a problem without separately available per-asset problems, e.g. one interval of a split set-up:
         \*  the clauses that need only the problem's own tables)
         /\ why' = IF Tr.mode = "global"
                   THEN (IF ~(G.nc = G.n /\ G.nl = G.n /\ G.nu = G.n /\ (G.ncols = G.n \/ G.ncols = -1)) THEN "size"
                         ELSE IF ~LabelRangeOK THEN "label_range" ELSE IF ~StepOK THEN "step_on_grid" ELSE IF ~BoundsOK THEN "bounds_nan"
                         ELSE IF ~UnmappedInertOK THEN "unmapped_inert" ELSE IF ~NodalOK THEN "nodal_rows" ELSE "")
                   ELSE IF Tr.mode = "fix" THEN (IF ~LabelRangeOK THEN "label_range" ELSE IF ~StepInWindowOK THEN "step_in_window"
                                                 ELSE IF FixOK THEN "" ELSE "fix_window")
                   ELSE IF ~SizeOK THEN "size" ELSE IF ~LabelRangeOK THEN "label_range" ELSE FirstFailed
Spec == Init /\ [][Check]_vars
Mark == TLCSet(tid, IF ~done THEN TLCGet(tid) ELSE IF why = "" THEN <<1, "accepted">> ELSE <<1, why>>)
Post == \A i \in 1..Len(Traces) : PrintT(<<"VERDICT", i, TLCGet(i)>>)
=============================================================================
