------------------------------ MODULE EAOModel ------------------------------
(***************************************************************************)
(* The physical portfolio as a time-stepped state machine.                 *)
(*                                                                         *)
(*   Commit : decisions taken once for the whole horizon (execution        *)
(*            fraction of every order of every order book)                 *)
(*   Step   : one joint move -- every asset does one move allowed by its   *)
(*            guards (EAOGuards) and the flows at every node net to zero   *)
(*   after step T the behaviour is complete.                               *)
(*                                                                         *)
(* The configuration is part of the state (chosen in Init from Configs),   *)
(* so one TLC run covers a family and every emitted behaviour names the    *)
(* configuration it belongs to.                                            *)
(*                                                                         *)
(* Relax # {} gives the deliberately relaxed variants used for negative    *)
(* conformance: one named guard may be violated once; the faulted state is *)
(* emitted as a near-miss PREFIX and is not expanded.                      *)
(***************************************************************************)
EXTENDS EAOGuards, Json

CONSTANTS Configs,   \* set of configuration records (see DESIGN.md A.1)
          Relax      \* set of guard names that may be violated once ({} = strict model)

VARIABLES cfg, phase, t, frac, sub, aval, val, hist, fault
vars == <<cfg, phase, t, frac, sub, aval, val, hist, fault>>

NA   == Len(cfg.assets)
A(i) == cfg.assets[i]

(***************************************************************************)
(* Candidate volumes of a leg: the bounds, zero and the multiples of the   *)
(* asset's lattice step q in between; one unit beyond the bounds when a    *)
(* violation is allowed (w = 1).                                           *)
(***************************************************************************)
Cand(lo, hi, q, w) ==
  { x \in (lo - w)..(hi + w) : x = lo \/ x = hi \/ x % q = 0 \/ x = lo - w \/ x = hi + w }

LegSets(a, s, w) ==
  LET d == cfg.dt[s] IN
  CASE a.kind \in {"contract", "multi"} ->
         \* a contract that can only deliver (or only take) over the whole horizon has one leg only: the other
         \* leg is identically zero and is not widened for near-misses
         << IF \A u \in 1..cfg.T : a.lo[u] >= 0 THEN {0} ELSE Cand(Min2(0, a.lo[s]) * d, Min2(0, a.hi[s]) * d, a.q, w),
            IF \A u \in 1..cfg.T : a.hi[u] <= 0 THEN {0} ELSE Cand(Max2(0, a.lo[s]) * d, Max2(0, a.hi[s]) * d, a.q, w) >>
    [] a.kind = "transport" -> << Cand(a.lo * d, a.hi * d, a.q, w) >>
    [] a.kind = "storage"   -> << Cand(-a.cin * d, 0, a.q, w), Cand(0, a.cout * d, a.q, w) >>
    [] a.kind = "orderbook" -> << >>

\* When taking out and putting in at once has exactly the effect and cost of the net volume (no spread; a
\* loss-free, cost-free one-node storage) only the canonical representation (one leg zero) is enumerated.
Interchangeable(a) ==
  CASE a.kind \in {"contract", "multi"} -> a.ec = 0
    [] a.kind = "storage" -> a.eff = <<1, 1>> /\ a.costin = 0 /\ a.costout = 0 /\ a.nin = a.nout
    [] OTHER -> FALSE

NetRange(a, s) ==     \* range of the net volume of an asset whose two legs are interchangeable
  LET d == cfg.dt[s] IN
  IF a.kind = "storage" THEN <<-a.cin * d, a.cout * d>> ELSE <<a.lo[s] * d, a.hi[s] * d>>

LegTuples(a, s, w) ==
  IF ~Active(cfg, a, s) /\ a.kind # "orderbook"
  THEN (IF w = 0 THEN { [k \in 1..NLegs(a) |-> 0] }
        ELSE { [k \in 1..NLegs(a) |-> 0], [k \in 1..NLegs(a) |-> IF k = NLegs(a) THEN 1 ELSE 0] })
  ELSE IF Interchangeable(a)
  THEN { <<Min2(q, 0), Max2(q, 0)>> : q \in Cand(NetRange(a, s)[1], NetRange(a, s)[2], a.q, w) }
  ELSE LET ls == LegSets(a, s, w) IN
       CASE Len(ls) = 0 -> { <<>> }
         [] Len(ls) = 1 -> { <<x>> : x \in ls[1] }
         [] Len(ls) = 2 -> { <<x, y>> : x \in ls[1], y \in ls[2] }

\* results of all moves of asset i in step s; bad moves only if they may be relaxed
Moves(i, s, w) ==
  LET rs == { [legs |-> lg, r |-> AssetStep(cfg, 1, 0, A(i), s, lg, sub[i], frac[i])] : lg \in LegTuples(A(i), s, w) }
  IN { m \in rs : m.r.bad = "" \/ (w = 1 /\ m.r.bad \in Relax) }

RECURSIVE Joint(_, _, _)
Joint(k, s, w) ==      \* sequences of moves of assets 1..k with at most one bad move
  IF k = 0 THEN { <<>> }
  ELSE { Append(j, m) : j \in Joint(k - 1, s, w), m \in Moves(k, s, w) }

NBad(j)   == Cardinality({ i \in 1..Len(j) : j[i].r.bad # "" })
BadOf(j)  == LET b == { j[i].r.bad : i \in 1..Len(j) } \ {""} IN IF b = {} THEN "" ELSE CHOOSE x \in b : TRUE
Res(j)    == [i \in 1..Len(j) |-> j[i].r]

(***************************************************************************)
(* Commit: order fractions.  frac[i] = <<>> for assets that are no order   *)
(* book.  Fractions are integers 0..fden (fraction = frac / fden).         *)
(***************************************************************************)
FracChoices(a, w) ==
  IF a.kind # "orderbook" THEN { <<>> }
  ELSE LET all == { f \in [1..Len(a.orders) -> ((0 - w)..(a.fden + w))] :
                        \* the fraction of an order that covers no step is immaterial: no near-miss on it
                        \A o \in 1..Len(a.orders) : OrderInert(cfg, a.orders[o]) => f[o] \in 0..a.fden }
       IN { f \in all : OrderFracChk(a, f) = "" \/ (w = 1 /\ OrderFracChk(a, f) \in Relax) }

Init ==
  /\ cfg \in Configs
  /\ phase = "commit" /\ t = 1 /\ val = 0 /\ hist = <<>> /\ fault = ""
  /\ frac = [i \in 1..Len(cfg.assets) |-> <<>>]
  /\ sub  = [i \in 1..Len(cfg.assets) |-> InitSub(cfg.assets[i])]
  /\ aval = [i \in 1..Len(cfg.assets) |-> 0]

RECURSIVE FracJoint(_, _)
FracJoint(k, w) ==
  IF k = 0 THEN { <<>> }
  ELSE { Append(j, f) : j \in FracJoint(k - 1, w), f \in FracChoices(A(k), w) }

Commit ==
  /\ phase = "commit"
  /\ \E w \in (IF Relax = {} THEN {0} ELSE {0, 1}) :
       \E f \in FracJoint(NA, w) :
         LET badi == { i \in 1..NA : A(i).kind = "orderbook" /\ OrderFracChk(A(i), f[i]) # "" }
         IN /\ Cardinality(badi) = w
            /\ fault' = IF badi = {} THEN "" ELSE OrderFracChk(A(CHOOSE i \in badi : TRUE), f[CHOOSE i \in badi : TRUE])
            /\ frac' = f
  /\ phase' = "step"
  /\ UNCHANGED <<cfg, t, sub, aval, val, hist>>

StepRec(j) == [legs |-> [i \in 1..NA |-> j[i].legs],
               lvl  |-> [i \in 1..NA |-> j[i].r.st.lvl],
               cost |-> [i \in 1..NA |-> j[i].r.cost],
               flow |-> [i \in 1..NA |-> j[i].r.flows]]

Step ==
  /\ phase = "step" /\ t <= cfg.T /\ fault = ""
  /\ \E w \in (IF Relax = {} THEN {0} ELSE {0, 1}) :
       \E j \in Joint(NA, t, w) :
         LET nb  == NBad(j)
             imb == Imbalanced(cfg, Res(j), 0)
         IN /\ nb = w                                   \* the widened pass yields exactly one violated guard
            /\ \/ imb = {}
               \/ /\ "balance" \in Relax /\ w = 0       \* or: all guards hold but one node is off by one unit
                  /\ Cardinality(imb) = 1
                  /\ \A n \in imb : Abs(NodeSum(Res(j), n)) = cfg.D
            /\ fault' = IF nb = 1 THEN BadOf(j) ELSE IF imb # {} THEN "balance" ELSE ""
            /\ sub'   = [i \in 1..NA |-> j[i].r.st]
            /\ aval'  = [i \in 1..NA |-> aval[i] - j[i].r.cost]
            /\ val'   = val - SeqSum([i \in 1..NA |-> j[i].r.cost])
            /\ hist'  = Append(hist, StepRec(j))
  /\ t' = t + 1
  /\ UNCHANGED <<cfg, phase, frac>>

Next == Commit \/ Step
Spec == Init /\ [][Next]_vars

Complete == phase = "step" /\ t = cfg.T + 1 /\ fault = ""
Faulted  == fault # ""

(***************************************************************************)
(* Invariants of the strict model (checked by TLC in every reachable       *)
(* state).  They are the physical content of C01, C04, C05, C08, C13, C20. *)
(***************************************************************************)
\* C04: the value is the sum of the per-asset cash flows, each the sum of its per-step cash flows
ValDef ==
  /\ val = SeqSum([i \in 1..NA |-> aval[i]])
  /\ \A i \in 1..NA : aval[i] = -SeqSum([s \in 1..Len(hist) |-> hist[s].cost[i]])

\* C01: recorded flows net to zero at every node in every step (only a "balance" fault breaks it)
BalanceInv ==
  fault # "balance" =>
    \A s \in 1..Len(hist) : \A n \in cfg.nodes : SeqSum([i \in 1..NA |-> hist[s].flow[i][n]]) = 0

\* C05: level within [0, size] after every step that is not the last of a block, end level there
LevelInv ==
  fault = "" =>
    \A s \in 1..Len(hist) : \A i \in 1..NA :
      (A(i).kind = "storage" /\ Active(cfg, A(i), s)) =>
         LET a == A(i) IN
         /\ hist[s].lvl[i] >= 0
         /\ hist[s].lvl[i] <= a.size * a.eff[2] \/ (BlockLast(cfg, a, s) /\ hist[s].lvl[i] = a.end * a.eff[2])
         /\ BlockLast(cfg, a, s) => hist[s].lvl[i] = a.end * a.eff[2]

\* C08: nothing flows, and nothing is paid, outside an asset's clipped window
WindowInv ==
  fault = "" =>
    \A s \in 1..Len(hist) : \A i \in 1..NA :
      (A(i).kind # "orderbook" /\ ~Active(cfg, A(i), s)) =>
         \* (only the fixed costs of a scaled asset run over its own, possibly wider, window)
         /\ \/ hist[s].cost[i] = 0
            \/ "fixrate" \in DOMAIN A(i) /\ hist[s].cost[i] = A(i).fixrate * cfg.dt[s] * cfg.DEN * cfg.VS
         /\ \A n \in cfg.nodes : hist[s].flow[i][n] = 0

\* C20/C08: an order without any step in the horizon has no effect whatever fraction is chosen
OrderInertInv ==
  \A s \in 1..Len(hist) : \A i \in 1..NA :
    (A(i).kind = "orderbook" /\ \A o \in 1..Len(A(i).orders) : OrderInert(cfg, A(i).orders[o])) =>
       /\ hist[s].cost[i] = 0
       /\ \A n \in cfg.nodes : hist[s].flow[i][n] = 0

\* C13: inside a coarse group the rate of every leg is constant; periodic positions repeat
GroupInv ==
  fault = "" =>
    \A s \in 2..Len(hist) : \A i \in 1..NA :
      (A(i).kind # "orderbook" /\ SameGroupAsPrev(cfg, A(i), s)) =>
         \A k \in 1..NLegs(A(i)) : hist[s].legs[i][k] * cfg.dt[s - 1] = hist[s - 1].legs[i][k] * cfg.dt[s]
PeriodInv ==
  fault = "" =>
    \A s1, s2 \in 1..Len(hist) : \A i \in 1..NA :
      (A(i).kind # "orderbook" /\ Active(cfg, A(i), s1) /\ Active(cfg, A(i), s2)
         /\ A(i).per[s1] # 0 /\ A(i).per[s1] = A(i).per[s2]) => hist[s1].legs[i] = hist[s2].legs[i]

(***************************************************************************)
(* Refinement: split optimisation (C14).  A behaviour of the split model   *)
(* (cfg.split # {}) is replayed, leg by leg, under the same configuration  *)
(* WITHOUT the split; when the only coupling between intervals is through  *)
(* storages whose start level equals their end level (cfg.refines), every  *)
(* split behaviour must be a behaviour of the unsplit model with the same  *)
(* value ("split never exceeds unsplit").                                  *)
(***************************************************************************)
RECURSIVE ReplayFrom(_, _, _, _)
\* replays hist[s..] under configuration c from sub-states st; returns [bad, val]
ReplayFrom(c, s, st, acc) ==
  IF s > Len(hist) THEN [bad |-> "", val |-> acc]
  ELSE LET rs == [i \in 1..Len(c.assets) |-> AssetStep(c, 1, 0, c.assets[i], s, hist[s].legs[i], st[i], frac[i])]
           b  == { rs[i].bad : i \in 1..Len(c.assets) } \ {""}
       IN IF b # {} THEN [bad |-> CHOOSE x \in b : TRUE, val |-> acc]
          ELSE IF Imbalanced(c, rs, 0) # {} THEN [bad |-> "balance", val |-> acc]
          ELSE ReplayFrom(c, s + 1, [i \in 1..Len(c.assets) |-> rs[i].st],
                          acc - SeqSum([i \in 1..Len(c.assets) |-> rs[i].cost]))

Unsplit == [cfg EXCEPT !.split = {}]
SplitRefinesUnsplit ==
  (fault = "" /\ cfg.split # {} /\ cfg.refines /\ Complete) =>
     LET r == ReplayFrom(Unsplit, 1, [i \in 1..NA |-> InitSub(A(i))], 0)
     IN r.bad = "" /\ r.val = val

(***************************************************************************)
(* Emission of behaviours for spec -> code conformance (CONSTRAINT Emit):  *)
(* complete strict behaviours and faulted prefixes are printed as JSON and *)
(* faulted states are not expanded.                                        *)
(***************************************************************************)
BehRec == [cid |-> cfg.id, fault |-> fault, at |-> Len(hist), val |-> val, aval |-> aval,
           frac |-> frac, steps |-> hist]
\* values only (for value functions: the harness takes the maximum per configuration)
EmitVal == Complete => PrintT(<<"VAL", cfg.id, val>>)
Emit ==
  /\ (Complete \/ Faulted) => PrintT(<<"BEH", ToJson(BehRec)>>)
  /\ fault = ""                  \* a faulted state is emitted, then dropped (never expanded)
=============================================================================
