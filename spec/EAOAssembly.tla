----------------------------- MODULE EAOAssembly -----------------------------
(***************************************************************************)
(* The index / mapping algorithm of Portfolio.setup_optim_problem as a     *)
(* state machine over the data it manipulates (C07, C09, C15):             *)
(*                                                                         *)
(*   AddAsset    : per-asset problems are appended (number of variables,   *)
(*                 mapping rows <<local label, node, step, kind>>);        *)
(*                 an asset may own variables without any mapping row      *)
(*                 (an order outside the horizon) and several rows per     *)
(*                 variable (transport, multi-commodity, coarse grids)     *)
(*   BuildIndex  : every mapping row receives the global label of its      *)
(*                 variable.  The labelling rule is a parameter (Rule):    *)
(*       "offset" : first variable of the asset + local label  (the code)  *)
(*       "keycat" : position of the key  ToString(local) \o name  among    *)
(*                  the distinct keys of the mapping (the code before the  *)
(*                  repair 0cb03ca) -- kept as a regression model: TLC     *)
(*                  must find its counterexamples                          *)
(*       "keypair": position of the key <<local, name>>                    *)
(*   FixWindow   : variables having a mapping row with a step in the       *)
(*                 window are pinned                                       *)
(*                                                                         *)
(* Invariants are the clauses of C07 that concern labels.                  *)
(***************************************************************************)
EXTENDS Integers, Sequences, FiniteSets, TLC

CONSTANTS Names,       \* set of candidate asset names (strings)
          MaxAssets, MaxVars, Steps, Rule

VARIABLES assets,      \* sequence of [name, n, rows: set of <<lab, step>>]
          phase, glabel  \* glabel: function <<asset index, local label>> -> global label, for labels having a row
vars == <<assets, phase, glabel>>

Offset(k) == LET S[i \in 0..Len(assets)] == IF i = 0 THEN 0 ELSE S[i - 1] + assets[i].n IN S[k - 1]
Total == Offset(Len(assets) + 1)

\* mapping rows of the concatenated mapping, in order: asset by asset, local label ascending
MappedLabels(k) == { r[1] : r \in assets[k].rows }
Keys == { <<k, i>> : k \in 1..Len(assets), i \in 0..(MaxVars - 1) }
Mapped == { ki \in Keys : ki[1] <= Len(assets) /\ ki[2] \in MappedLabels(ki[1]) }

KeyCat(ki)  == ToString(ki[2]) \o assets[ki[1]].name
KeyPair(ki) == <<ki[2], assets[ki[1]].name>>
\* order of first appearance in the concatenated mapping
Before(a, b) == a[1] < b[1] \/ (a[1] = b[1] /\ a[2] < b[2])
FirstWithKey(K(_), ki) == CHOOSE m \in Mapped : K(m) = K(ki) /\ \A m2 \in Mapped : K(m2) = K(ki) => (m2 = m \/ Before(m, m2))
RankOfKey(K(_), ki) == Cardinality({ m \in Mapped : m = FirstWithKey(K, m) /\ Before(m, FirstWithKey(K, ki)) })

Label(ki) == CASE Rule = "offset"  -> Offset(ki[1]) + ki[2]
               [] Rule = "keycat"  -> RankOfKey(KeyCat, ki)
               [] Rule = "keypair" -> RankOfKey(KeyPair, ki)

Init == assets = <<>> /\ phase = "collect" /\ glabel = <<>>

AddAsset ==
  /\ phase = "collect" /\ Len(assets) < MaxAssets
  /\ \E nm \in Names \ { assets[k].name : k \in 1..Len(assets) } :     \* names are unique (asserted by Portfolio)
       \E n \in 1..MaxVars :
         \E labs \in SUBSET (0..(n - 1)) :                              \* labels that have a mapping row
           /\ assets' = Append(assets, [name |-> nm, n |-> n, rows |-> { <<i, i % Steps>> : i \in labs }])
  /\ UNCHANGED <<phase, glabel>>

BuildIndex ==
  /\ phase = "collect" /\ Len(assets) >= 1
  /\ glabel' = [ki \in Mapped |-> Label(ki)]
  /\ phase' = "indexed" /\ UNCHANGED assets

Next == AddAsset \/ BuildIndex
Spec == Init /\ [][Next]_vars

\* ---- C07 (label clauses)
LabelInRange  == phase = "indexed" => \A ki \in DOMAIN glabel : 0 <= glabel[ki] /\ glabel[ki] < Total
LabelInjective == phase = "indexed" => \A a, b \in DOMAIN glabel : a # b => glabel[a] # glabel[b]
\* the label of a variable is its position in the concatenated cost / bound vectors
LabelIsPosition == phase = "indexed" => \A ki \in DOMAIN glabel : glabel[ki] = Offset(ki[1]) + ki[2]

=============================================================================
