---------------------------- MODULE EAOUnitCommit ----------------------------
(***************************************************************************)
(* Enumerating model of the Plant / CHP unit-commitment automaton (C06):   *)
(* every reachable on/off pattern with every candidate output, the guards  *)
(* being UCStep of EAOUCGuards.  Relax # {}: one guard violated once, the  *)
(* faulted state is emitted as a near-miss prefix and not expanded.        *)
(***************************************************************************)
EXTENDS EAOUCGuards
CONSTANTS Configs, Relax
VARIABLES cfg, t, st, hist, val, fault
vars == <<cfg, t, st, hist, val, fault>>

Cand(lo, hi, q, w) == { x \in (lo - w)..(hi + w) : x = lo \/ x = hi \/ x % q = 0 \/ x = lo - w \/ x = hi + w }

\* candidate moves of step s: the four automaton actions x candidate outputs
MovesUC(s, w) ==
  LET c  == cfg
      ps == Cand(0, c.hi[s] * c.d, c.q, w)
      hs == IF c.heat THEN Cand(0, (c.hi[s] * c.d * c.conv[2]) \div c.conv[1], c.q, 0) ELSE {0}
  IN { [on |-> o, start |-> sf, p |-> p, h |-> h] : o \in BOOLEAN, sf \in BOOLEAN, p \in ps, h \in hs }

Init == /\ cfg \in Configs /\ t = 1 /\ hist = <<>> /\ val = 0 /\ fault = ""
        /\ st = InitUC(cfg, 1)

Step == /\ t <= cfg.T /\ fault = ""
        /\ \E w \in (IF Relax = {} THEN {0} ELSE {0, 1}) : \E m \in MovesUC(t, w) :
             LET r == UCStep(cfg, 1, 0, t, st, m) IN
             /\ (r.bad = "" /\ w = 0) \/ (w = 1 /\ r.bad \in Relax)
             /\ fault' = r.bad
             /\ st' = r.st
             /\ val' = val - r.cost
             /\ hist' = Append(hist, [on |-> m.on, start |-> m.start, p |-> m.p, h |-> m.h, cost |-> r.cost, fuel |-> r.fuel])
        /\ t' = t + 1 /\ UNCHANGED cfg
Spec == Init /\ [][Step]_vars

Complete == t = cfg.T + 1 /\ fault = ""

(***************************************************************************)
(* Invariants (strict model): the history respects runtime / downtime      *)
(* windows stated directly on the pattern (independent of the timers).     *)
(***************************************************************************)
OnAt(s) == IF s >= 1 THEN hist[s].on ELSE cfg.run0 > 0
\* every maximal on-run that has ended lasted at least minrun ticks (counting time already running)
RunLen(e) ==   \* ticks of the on-run ending at step e (hist[e].on, ~hist[e+1].on)
  LET b == CHOOSE k \in 0..e : (\A j \in (k + 1)..e : hist[j].on) /\ (k = 0 \/ ~hist[k].on)
  IN (e - b) * cfg.d + (IF b = 0 /\ cfg.run0 > 0 THEN cfg.run0 ELSE 0)
OffLen(e) ==
  LET b == CHOOSE k \in 0..e : (\A j \in (k + 1)..e : ~hist[j].on) /\ (k = 0 \/ hist[k].on)
  IN (e - b) * cfg.d + (IF b = 0 /\ cfg.run0 = 0 THEN (IF cfg.off0 > 0 THEN cfg.off0 ELSE BIG) ELSE 0)
MinRunInv  == (fault = "") => \A e \in 1..(Len(hist) - 1) : ((hist[e].on /\ ~hist[e + 1].on) => RunLen(e) >= cfg.minrun)
MinRun0Inv == (fault = "" /\ Len(hist) >= 1 /\ cfg.run0 > 0 /\ ~hist[1].on) => cfg.run0 >= cfg.minrun
MinDownInv == (fault = "") => \A e \in 1..(Len(hist) - 1) : ((~hist[e].on /\ hist[e + 1].on) => OffLen(e) >= cfg.mindown)
MinDown0Inv == (fault = "" /\ Len(hist) >= 1 /\ cfg.run0 = 0 /\ hist[1].on /\ cfg.off0 > 0) => cfg.off0 >= cfg.mindown
StartInv   == fault = "" => \A s \in 1..Len(hist) : hist[s].start = (hist[s].on /\ ~OnAt(s - 1))
OffZeroInv == (fault = "") => \A s \in 1..Len(hist) : (~hist[s].on => (hist[s].p = 0 /\ hist[s].h = 0))

BehRec == [cid |-> cfg.id, fault |-> fault, at |-> Len(hist), val |-> val, steps |-> hist]
Emit == /\ (Complete \/ fault # "") => PrintT(<<"BEH", ToJson(BehRec)>>)
        /\ fault = ""
=============================================================================
