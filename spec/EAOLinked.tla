------------------------------- MODULE EAOLinked -------------------------------
(***************************************************************************)
(* LinkedAsset (growth beyond the listed properties): a variable v1 of     *)
(* asset 1 may be positive at step t only if the boolean v2 of asset 2 is  *)
(* on at every step t+i, i = -back .. forward:                             *)
(*            v1[t] <= u1 * v2[t + i]                                      *)
(* Steps before the horizon count as on for the `run0` steps asset 2 has   *)
(* already been running and as off before that; steps behind the horizon   *)
(* impose nothing.                                                         *)
(*                                                                         *)
(* State machine: one move per step = (on2, v1).  State: the last `back`   *)
(* values of on2 (pre-horizon values from run0) and `must`, the number of  *)
(* further steps on2 has to stay on because of an earlier positive v1.     *)
(* Configuration: T, back, forward, run0, u (upper bound of v1).           *)
(***************************************************************************)
EXTENDS Integers, Sequences, FiniteSets, TLC, Json

CONSTANTS Configs, Relax
VARIABLES cfg, t, past, must, hist, fault
vars == <<cfg, t, past, must, hist, fault>>

\* past[k] = on2 at step t - k  (k = 1 .. back)
InitPast(c) == [k \in 1..c.back |-> k <= c.run0]

StepL(c, x, m) ==
  LET backok == m.v1 = 0 \/ (m.on2 /\ \A k \in 1..c.back : x.past[k])
      fwdok  == x.must = 0 \/ m.on2
  IN [bad  |-> IF ~backok THEN "link_back" ELSE IF ~fwdok THEN "link_forward"
               ELSE IF m.v1 < 0 \/ m.v1 > c.u THEN "cap" ELSE "",
      past |-> [k \in 1..c.back |-> IF k = 1 THEN m.on2 ELSE x.past[k - 1]],
      must |-> IF m.v1 > 0 THEN c.forward ELSE IF x.must > 0 THEN x.must - 1 ELSE 0]

Init == /\ cfg \in Configs /\ t = 1 /\ hist = <<>> /\ fault = ""
        /\ past = InitPast(cfg) /\ must = 0
Step == /\ t <= cfg.T /\ fault = ""
        /\ \E w \in (IF Relax = {} THEN {0} ELSE {0, 1}) : \E o \in BOOLEAN : \E v \in (0 - w)..(cfg.u + w) :
             LET r == StepL(cfg, [past |-> past, must |-> must], [on2 |-> o, v1 |-> v]) IN
             /\ (r.bad = "" /\ w = 0) \/ (w = 1 /\ r.bad \in Relax)
             /\ fault' = r.bad /\ past' = r.past /\ must' = r.must
             /\ hist' = Append(hist, [on2 |-> o, v1 |-> v])
        /\ t' = t + 1 /\ UNCHANGED cfg
Spec == Init /\ [][Step]_vars
Complete == t = cfg.T + 1 /\ fault = ""

\* the defining formula, stated directly on the history
On2At(s) == IF s >= 1 THEN hist[s].on2 ELSE (1 - s) <= cfg.run0
LinkInv == (fault = "") => \A s \in 1..Len(hist) : hist[s].v1 > 0 =>
             \A i \in (0 - cfg.back)..cfg.forward : (s + i <= Len(hist)) => On2At(s + i)

Emit == /\ (Complete \/ fault # "") => PrintT(<<"BEH", ToJson([cid |-> cfg.id, fault |-> fault, at |-> Len(hist), steps |-> hist])>>)
        /\ fault = ""
=============================================================================
