-------------------------- MODULE EAOUnitCommitRamp --------------------------
(***************************************************************************)
(* Unit commitment WITH start and shutdown ramp profiles (growth of C06).   *)
(*                                                                         *)
(* Configuration c (a plant that is off when the horizon begins, or has    *)
(* been running for run0 steps -- possibly still inside its start profile): *)
(*   T, d, lo, hi (capacity, volume per step when fully on), price[],      *)
(*   minrun, mindown (steps), off0 (steps already off), run0 (steps        *)
(*   already running; 0: off), startcost,                                  *)
(*   sr : sequence of <<lo, hi>> -- bounds of the output in the j-th step   *)
(*        after starting (sr[1]: the start step itself),                   *)
(*   dr : sequence of <<lo, hi>> -- bounds in the j-th step BEFORE turning  *)
(*        off (dr[1]: the last step the plant is on), q (lattice step).    *)
(*                                                                         *)
(* Reading of the documentation: every start is followed by the start      *)
(* profile, every switch-off is preceded by the shutdown profile (cut at   *)
(* the borders of the horizon); in profile steps the profile bounds        *)
(* replace the capacity bounds; profile steps do not count towards the     *)
(* minimum runtime; while off the output is zero.                          *)
(*                                                                         *)
(* With a heat node (c.heat): the output is the virtual output p + h        *)
(* (conversion factor 1), heat h <= p (maximum share 1), and srh / drh give *)
(* bounds of the HEAT in the profile steps (same lengths as sr / dr).       *)
(*                                                                         *)
(* State: on, how long in that state (steps), ss = number of steps the     *)
(* plant has been on since its last start, du = shutdown commitment:       *)
(*   0 none, k > 0: k further profile steps follow, -1: profile finished,  *)
(*   the plant must be off in the next step.                               *)
(* Move: [on, start, sdn (this step is the first shutdown-profile step),   *)
(*        p (output)].                                                     *)
(* c.rf = <<a, b>>: frequency of the profiles (see Conv below).            *)
(* c.ramp: ordinary ramp limit per step (-1: none), c.last0: virtual       *)
(* output before the horizon of a plant declared running.                  *)
(***************************************************************************)
EXTENDS Integers, Sequences, FiniteSets, TLC, Json

CONSTANTS Configs, Relax
VARIABLES cfg, t, st, hist, val, fault
vars == <<cfg, t, st, hist, val, fault>>
BIG == 1000000
Rs(c) == Len(c.sr)
Rd(c) == Len(c.dr)

(***************************************************************************)
(* Profiles given in another frequency than the grid (parameter ramp_freq). *)
(* c.rf = <<a, b>>: one grid step lasts a/b profile steps.  The profile is  *)
(* a list r[1..n]; "interpolated to the grid's frequency" is read the way   *)
(* the implementation does it (the documentation says no more than that):   *)
(*  - grid coarser or equal (a >= b): the j-th profile value holds during   *)
(*    the j-th profile step, the last value is kept afterwards, and the     *)
(*    bound of a grid step is the time average over that grid step;         *)
(*  - grid finer (a < b): the j-th profile value is reached at the END of   *)
(*    the j-th profile step; the bound of the k-th grid step is the linear  *)
(*    interpolation at the END of that grid step (constant before the first *)
(*    and after the last profile point).                                    *)
(* In both cases the converted profile has ceil(n * b / a) grid steps.      *)
(* Arithmetic is exact: positions are scaled by b (resp. a); a converted    *)
(* value that is not an integer makes ConvOK false (the family is then      *)
(* rejected as machinery error, never judged).                              *)
(***************************************************************************)
CeilDiv(x, y) == (x + y - 1) \div y
Min2(x, y) == IF x < y THEN x ELSE y
Max2(x, y) == IF x > y THEN x ELSE y
RECURSIVE SumTo(_, _)
SumTo(f, k) == IF k = 0 THEN 0 ELSE f[k] + SumTo(f, k - 1)
\* numerator and denominator of the converted value of grid step i (1-based)
ConvNum(r, a, b, i) ==
  LET n == Len(r) IN
  IF a >= b
  THEN \* [(i-1)a, ia) in units of 1/b profile steps; piece j covers [(j-1)b, jb)
       LET jmax == CeilDiv(i * a, b)
           ov == [j \in 1..jmax |-> Max2(0, Min2(i * a, j * b) - Max2((i - 1) * a, (j - 1) * b)) * r[Min2(j, n)]]
       IN  SumTo(ov, jmax)
  ELSE \* profile point j at position j*b, grid point i at position i*a (units of 1/a grid steps)
       IF i * a <= b THEN r[1] * b
       ELSE IF i * a >= n * b THEN r[n] * b
       ELSE LET j == (i * a) \div b IN r[j] * b + (r[j + 1] - r[j]) * (i * a - j * b)
ConvDen(a, b) == IF a >= b THEN a ELSE b
ConvLen(r, a, b) == CeilDiv(Len(r) * b, a)
Conv(r, a, b) == IF r = <<>> \/ a = b THEN r ELSE [i \in 1..ConvLen(r, a, b) |-> ConvNum(r, a, b, i) \div ConvDen(a, b)]
ConvExact(r, a, b) == r = <<>> \/ a = b \/ \A i \in 1..ConvLen(r, a, b) : ConvNum(r, a, b, i) % ConvDen(a, b) = 0
\* profiles are sequences of <<lo, hi>>: both components are converted separately
Pairs(p, a, b) == LET lo == Conv([j \in 1..Len(p) |-> p[j][1]], a, b)
                      hi == Conv([j \in 1..Len(p) |-> p[j][2]], a, b)
                  IN  [j \in 1..Len(lo) |-> <<lo[j], hi[j]>>]
PairsExact(p, a, b) == ConvExact([j \in 1..Len(p) |-> p[j][1]], a, b) /\ ConvExact([j \in 1..Len(p) |-> p[j][2]], a, b)
Converted(c) == [c EXCEPT !.sr = Pairs(c.sr, c.rf[1], c.rf[2]), !.dr = Pairs(c.dr, c.rf[1], c.rf[2]),
                          !.srh = Pairs(c.srh, c.rf[1], c.rf[2]), !.drh = Pairs(c.drh, c.rf[1], c.rf[2])]
ConvOK(c) == \A p \in {c.sr, c.dr, c.srh, c.drh} : PairsExact(p, c.rf[1], c.rf[2])

StepR(c, s, x, m) ==
  LET trans == m.on /\ ~x.on
      js    == IF trans THEN 0 ELSE x.ss                         \* index of this step in the start profile
      instart == m.on /\ js < Rs(c)
      dunow == IF ~m.on THEN 0 ELSE IF x.du > 0 THEN x.du ELSE IF m.sdn THEN Rd(c) ELSE 0
      indown == m.on /\ dunow > 0
      auto  == IF trans /\ x.dur < c.mindown THEN "min_down"
               ELSE IF m.on /\ x.du = -1 THEN "shutdown_profile_must_end_off"
               ELSE IF m.on /\ x.du > 0 /\ m.sdn THEN "shutdown_begun_twice"
               ELSE IF m.sdn /\ (~m.on \/ Rd(c) = 0) THEN "shutdown_flag_without_profile"
               \* (the implementation applies a shutdown profile only when the switch-off itself lies inside the horizon;
               \*  a plant still ramping down when the horizon ends is not considered -- modelled as it is)
               ELSE IF m.on /\ m.sdn /\ s + Rd(c) > c.T THEN "shutdown_beyond_horizon"
               \* the shutdown profile may begin only after start profile + minimum runtime (profile steps do not count)
               ELSE IF m.on /\ m.sdn /\ x.du = 0 /\ (IF trans THEN 0 ELSE x.dur) < c.minrun + Rs(c) THEN "min_run"
               \* switching off: after the whole shutdown profile -- or, without profile, after the minimum runtime
               ELSE IF ~m.on /\ x.on /\ Rd(c) > 0 /\ x.du # -1 THEN "off_without_shutdown_profile"
               ELSE IF ~m.on /\ x.on /\ Rd(c) = 0 /\ x.dur < c.minrun + Rs(c) THEN "min_run"
               ELSE ""
      flag  == IF trans /\ ~m.start THEN "start_flag_missing" ELSE IF m.start /\ ~trans THEN "start_flag_spurious" ELSE ""
      b     == IF instart THEN c.sr[js + 1] ELSE IF indown THEN c.dr[dunow] ELSE <<c.lo, c.hi>>
      bh    == IF instart THEN c.srh[js + 1] ELSE IF indown THEN c.drh[dunow] ELSE <<0, c.hi>>      \* bounds of the heat
      v     == m.p + m.h                                                                           \* virtual output
      \* ordinary ramp limit (c.ramp, -1: none) on the virtual output, "except during time steps that belong to the start or shutdown ramp"
      \* -- read as the implementation does: a rise INTO a start-profile step is free (the rise from the last profile step to normal
      \* operation is not); a fall is free into the switch-off step and into the profile steps before it EXCEPT the first one (the fall
      \* from normal operation into the shutdown profile is limited) -- the mirror image of the start side
      freedown == (~m.on /\ Rd(c) >= 1) \/ (m.on /\ dunow > 0 /\ dunow <= Rd(c) - 1)
      rmp   == IF c.ramp < 0 THEN ""
               ELSE IF m.on /\ ~instart /\ v - x.last > c.ramp THEN "ramp_up"
               ELSE IF x.on /\ ~freedown /\ x.last - v > c.ramp THEN "ramp_down"
               ELSE ""
      outp  == IF ~m.on THEN (IF m.p = 0 /\ m.h = 0 THEN "" ELSE "off_output")
               ELSE IF m.p < 0 \/ m.h < 0 THEN "negative_output"
               ELSE IF v < b[1] \/ v > b[2] THEN (IF instart THEN "start_profile" ELSE IF indown THEN "shutdown_profile" ELSE "cap")
               ELSE IF c.heat /\ (m.h < bh[1] \/ m.h > bh[2]) THEN (IF instart THEN "start_profile_heat" ELSE IF indown THEN "shutdown_profile_heat" ELSE "cap_heat")
               ELSE IF c.heat /\ m.h > m.p THEN "heat_share"
               ELSE ""
      bads  == SelectSeq(<<auto, flag, outp, rmp>>, LAMBDA z : z # "")
  IN [bad |-> IF bads = <<>> THEN "" ELSE bads[1],
      st  |-> [on  |-> m.on,
               dur |-> IF m.on = x.on THEN (IF x.dur >= BIG THEN BIG ELSE x.dur + 1) ELSE 1,
               ss  |-> IF ~m.on THEN 0 ELSE js + 1,
               du  |-> IF ~m.on THEN 0 ELSE IF dunow > 1 THEN dunow - 1 ELSE IF dunow = 1 THEN -1 ELSE 0,
               last |-> IF m.on THEN v ELSE 0],
      cost |-> c.price[s] * (m.p + m.h) + (IF m.start THEN c.startcost ELSE 0)]

Cand(lo, hi, q, w) == { z \in (lo - w)..(hi + w) : z = lo \/ z = hi \/ z % q = 0 \/ z = lo - w \/ z = hi + w }
AllBounds(c) == { c.lo, c.hi } \cup { c.sr[j][k] : j \in 1..Rs(c), k \in 1..2 } \cup { c.dr[j][k] : j \in 1..Rd(c), k \in 1..2 }
HeatBounds(c) == IF c.heat THEN { c.srh[j][k] : j \in 1..Rs(c), k \in 1..2 } \cup { c.drh[j][k] : j \in 1..Rd(c), k \in 1..2 } ELSE {}
Moves(w) == { [on |-> o, start |-> sf, sdn |-> sd, p |-> p, h |-> h] : o \in BOOLEAN, sf \in BOOLEAN, sd \in BOOLEAN,
              p \in { z \in 0..(cfg.hi + w) : z = 0 \/ z % cfg.q = 0 \/ \E y \in AllBounds(cfg) : z \in {y - w, y, y + w} },
              h \in (IF cfg.heat THEN { z \in 0..(cfg.hi + w) : z = 0 \/ z % cfg.q = 0 \/ \E y \in HeatBounds(cfg) : z \in {y - w, y, y + w} } ELSE {0}) }

InitDu(c) == IF c.run0 = 0 THEN {0}
             ELSE {0} \cup { k \in 1..(Rd(c) - 1) : c.run0 >= c.minrun + Rs(c) + (Rd(c) - k) }
                      \cup (IF Rd(c) > 0 /\ c.run0 >= c.minrun + Rs(c) + Rd(c) THEN {-1} ELSE {})
\* the state machine runs on the CONVERTED configuration (cfg.sr etc. are the profiles in grid steps)
Init == /\ \E c0 \in Configs : cfg = Converted(c0)
        /\ t = 1 /\ hist = <<>> /\ val = 0 /\ fault = ""
        \* a plant declared running may already be anywhere in its shutdown profile (the profile is cut at the border of the
        \* horizon: its steps before the horizon are not constrained), as far as its declared run time allows
        /\ \E du0 \in InitDu(cfg) :
             st = IF cfg.run0 > 0 THEN [on |-> TRUE, dur |-> cfg.run0, ss |-> cfg.run0, du |-> du0, last |-> cfg.last0]
                  ELSE [on |-> FALSE, dur |-> IF cfg.off0 > 0 THEN cfg.off0 ELSE BIG, ss |-> 0, du |-> 0, last |-> 0]
Step == /\ t <= cfg.T /\ fault = ""
        /\ \E w \in (IF Relax = {} THEN {0} ELSE {0, 1}) : \E m \in Moves(w) :
             LET r == StepR(cfg, t, st, m) IN
             /\ (r.bad = "" /\ w = 0) \/ (w = 1 /\ r.bad \in Relax)
             /\ fault' = r.bad /\ st' = r.st /\ val' = val - r.cost
             /\ hist' = Append(hist, [on |-> m.on, start |-> m.start, sdn |-> m.sdn, p |-> m.p, h |-> m.h])
        /\ t' = t + 1 /\ UNCHANGED cfg
Spec == Init /\ [][Step]_vars
Complete == t = cfg.T + 1 /\ fault = ""

\* ---- invariants on the history (independent of the counters)
OnRunEndingAt(e) == CHOOSE k \in 0..e : (\A j \in (k + 1)..e : hist[j].on) /\ (k = 0 \/ ~hist[k].on)     \* run = steps k+1..e
\* steps of that run that lie before the horizon (a plant declared running)
Before(k) == IF k = 0 THEN cfg.run0 ELSE 0
\* every completed on-run is long enough for start profile + minimum runtime + shutdown profile
RunLongEnough == (fault = "") => \A e \in 1..(Len(hist) - 1) :
                    ((hist[e].on /\ ~hist[e + 1].on) => e - OnRunEndingAt(e) + Before(OnRunEndingAt(e)) >= cfg.minrun + Rs(cfg) + Rd(cfg))
\* the last Rd steps before a switch-off carry the shutdown profile, the first Rs steps after a start the start profile
ProfilesFollowed == (fault = "") => \A e \in 1..Len(hist) : hist[e].on =>
                    LET k == OnRunEndingAt(e) IN
                    /\ (e - k + Before(k) <= Rs(cfg)) => (hist[e].p + hist[e].h >= cfg.sr[e - k + Before(k)][1] /\ hist[e].p + hist[e].h <= cfg.sr[e - k + Before(k)][2])
                    /\ \A j \in 1..Rd(cfg) : (e + j <= Len(hist) /\ (\A i \in 0..(j - 1) : hist[e + i].on) /\ ~hist[e + j].on)
                                               => (hist[e].p + hist[e].h >= cfg.dr[j][1] /\ hist[e].p + hist[e].h <= cfg.dr[j][2])
OffZero == (fault = "") => \A e \in 1..Len(hist) : (~hist[e].on => hist[e].p = 0 /\ hist[e].h = 0)
ASSUME ConversionExact == \A c0 \in Configs : ConvOK(c0)      \* families keep converted bounds integral (else: machinery error)
\* between two consecutive on-steps outside every profile the virtual output changes by at most the ramp
RampOutsideProfiles == (fault = "" /\ cfg.ramp >= 0) => \A e \in 2..Len(hist) :
     (hist[e].on /\ hist[e - 1].on
        /\ e - OnRunEndingAt(e) + Before(OnRunEndingAt(e)) > Rs(cfg) + 1                                   \* neither step in the start profile
        /\ \A j \in 0..Rd(cfg) : ~(e + j <= Len(hist) /\ (\A i \in 0..(j - 1) : hist[e + i].on) /\ e + j <= Len(hist) /\ ~hist[e + j].on))
     => (hist[e].p + hist[e].h - hist[e - 1].p - hist[e - 1].h <= cfg.ramp /\ hist[e - 1].p + hist[e - 1].h - hist[e].p - hist[e].h <= cfg.ramp)
HeatWithinShare == (fault = "") => \A e \in 1..Len(hist) : hist[e].h <= hist[e].p

Emit == /\ (Complete \/ fault # "") => PrintT(<<"BEH", ToJson([cid |-> cfg.id, fault |-> fault, at |-> Len(hist), val |-> val, steps |-> hist])>>)
        /\ fault = ""
=============================================================================
