------------------------------ MODULE EAOPrices ------------------------------
(***************************************************************************)
(* C18: a reported nodal price is a supergradient of the optimal value     *)
(* with respect to an injection at that node and step:                     *)
(*        V(d) <= V(0) + price * d        for injections d of either sign. *)
(* V(0), V(+1), V(-1) are lattice optima computed by TLC on EAOModel (the  *)
(* configuration plus a must-run unit contract at the node and step); for  *)
(* the integral families used V is linear on [-1,0] and [0,1], so          *)
(*        V(+1) - V(0) <= price <= V(0) - V(-1)                            *)
(* is the supergradient condition for every small d.  In addition the real *)
(* problem is re-optimised with a perturbed nodal right-hand side          *)
(* (d = +-1/4) and the recorded triples are checked against the            *)
(* inequality directly.                                                    *)
(* Trace: seq of price records [node, step, pi, v0, vp, vm (or "none"),    *)
(*   hasv (BOOLEAN), dn, dd (d = dn/dd), vd: seq of <<dn, V(dn/dd)>>, tol] *)
(* all values in fixed point K.                                            *)
(***************************************************************************)
EXTENDS Integers, Sequences, TLC, Json, IOUtils

Traces == ndJsonDeserialize(IOEnv.TRACE_FILE)
ASSUME \A i \in 1..Len(Traces) : TLCSet(i, <<0, "init">>)
VARIABLES tid, l, why
vars == <<tid, l, why>>
Tr == Traces[tid]

PriceFail(r) ==
  IF r.hasv /\ r.vp - r.v0 > r.pi + r.tol THEN "price_below_marginal_value_of_injection"
  ELSE IF r.hasv /\ r.pi > r.v0 - r.vm + r.tol THEN "price_above_marginal_cost_of_withdrawal"
  ELSE IF \E k \in 1..Len(r.vd) : r.vd[k][2] * r.dd > r.v0 * r.dd + r.pi * r.vd[k][1] + r.tol * r.dd THEN "supergradient_inequality"
  ELSE ""

Init == tid \in 1..Len(Traces) /\ l = 1 /\ why = ""
Step == /\ l <= Len(Tr.prices) /\ why = ""
        /\ why' = PriceFail(Tr.prices[l])
        /\ l' = l + 1 /\ UNCHANGED tid
Spec == Init /\ [][Step]_vars
Mark == TLCSet(tid, IF why # "" THEN <<l - 1, why>>
                    ELSE IF l = Len(Tr.prices) + 1 THEN <<l - 1, "accepted">> ELSE TLCGet(tid))
Post == \A i \in 1..Len(Traces) : PrintT(<<"VERDICT", i, TLCGet(i)>>)
=============================================================================
