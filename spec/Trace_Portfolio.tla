--------------------------- MODULE Trace_Portfolio ---------------------------
(***************************************************************************)
(* Light abstraction for ANY portfolio (all asset types, all construction  *)
(* routes): flows and attachment only, no asset internals.  It decides     *)
(*   C01  nodal balance of the REPORTED dispatch at every node and step,   *)
(*        the reported dispatch being what the solution vector implies     *)
(*        through the mapping, and flows only at nodes the asset is        *)
(*        attached to;                                                     *)
(*   C04  value = sum over assets and steps of the DCF table, and per      *)
(*        asset: DCF total = minus cost of its own variables times x.      *)
(* State machine: one Step per time step (running DCF sums per asset),     *)
(* then Finish.  Trace (fixed point K):                                    *)
(*  T, nodes: seq, NA, attach: [asset] -> seq of node indices,             *)
(*  steps: seq of [rflow: [asset][node] reported dispatch,                 *)
(*                 xflow: [asset][node] dispatch implied by x and mapping, *)
(*                 dcf: [asset] reported DCF of the step],                 *)
(*  cx: [asset] -c_a.x_a, rval: reported value, tol, vtol                  *)
(***************************************************************************)
EXTENDS Integers, Sequences, FiniteSets, TLC, Json, IOUtils, SequencesExt

Abs(x) == IF x < 0 THEN -x ELSE x
RECURSIVE SeqSum(_)
SeqSum(q) == IF q = <<>> THEN 0 ELSE Head(q) + SeqSum(Tail(q))

Traces == ndJsonDeserialize(IOEnv.TRACE_FILE)
ASSUME \A i \in 1..Len(Traces) : TLCSet(i, <<0, "init">>)
VARIABLES tid, l, acc, why
vars == <<tid, l, acc, why>>
Tr == Traces[tid]
NN == Len(Tr.nodes)

StepFail(ev) ==
  LET unb == { n \in 1..NN : Abs(SeqSum([a \in 1..Tr.NA |-> ev.rflow[a][n]])) > Tr.tol * Tr.NA }
      mis == { a \in 1..Tr.NA : \E n \in 1..NN : Abs(ev.rflow[a][n] - ev.xflow[a][n]) > Tr.tol }
      det == { a \in 1..Tr.NA : \E n \in 1..NN : n \notin ToSet(Tr.attach[a]) /\ (Abs(ev.rflow[a][n]) > Tr.tol \/ Abs(ev.xflow[a][n]) > Tr.tol) }
  IN IF unb # {} THEN "balance@node_" \o Tr.nodes[CHOOSE n \in unb : TRUE]
     ELSE IF mis # {} THEN "reported_dispatch_differs_from_x@asset" \o ToString(CHOOSE a \in mis : TRUE)
     ELSE IF det # {} THEN "flow_at_unattached_node@asset" \o ToString(CHOOSE a \in det : TRUE)
     ELSE ""

FinishFail ==
  LET bad == { a \in 1..Tr.NA : Abs(acc[a] - Tr.cx[a]) > Tr.vtol }
  IN IF Abs(Tr.rval - SeqSum(acc)) > Tr.vtol THEN "value_is_not_sum_of_dcf"
     ELSE IF bad # {} THEN "dcf_total_differs_from_cost_vector@asset" \o ToString(CHOOSE a \in bad : TRUE)
     ELSE ""

Init == /\ tid \in 1..Len(Traces) /\ l = 1 /\ why = ""
        /\ acc = [a \in 1..Traces[tid].NA |-> 0]
\* Tr.chk selects the clauses: "balance" (C01: step clauses), "accounting" (C04: finish clauses)
Step == /\ l <= Len(Tr.steps) /\ why = ""
        /\ why' = IF "balance" \in ToSet(Tr.chk) THEN StepFail(Tr.steps[l]) ELSE ""
        /\ acc' = [a \in 1..Tr.NA |-> acc[a] + Tr.steps[l].dcf[a]]
        /\ l' = l + 1 /\ UNCHANGED tid
Finish == /\ l = Len(Tr.steps) + 1 /\ why = ""
          /\ why' = IF "accounting" \in ToSet(Tr.chk) THEN FinishFail ELSE ""
          /\ l' = l + 1 /\ UNCHANGED <<tid, acc>>
Spec == Init /\ [][Step \/ Finish]_vars
Mark == TLCSet(tid, IF why # "" THEN <<l - 1, why>>
                    ELSE IF l = Len(Tr.steps) + 2 THEN <<l - 1, "accepted">> ELSE TLCGet(tid))
Post == \A i \in 1..Len(Traces) : PrintT(<<"VERDICT", i, TLCGet(i)>>)
=============================================================================
