---------------------------- MODULE EAOIndexInd ----------------------------
(***************************************************************************)
(* Inductive check (Apalache) of the label rule the code uses for the      *)
(* joint variable index: label = first variable of the asset + local       *)
(* label.  For ANY numbers of variables per asset (unbounded integers) and *)
(* up to MaxAssets assets: labels of different variables differ and lie    *)
(* inside 0 .. total-1.                                                    *)
(*   offs[k] : first variable of asset k, ns[k] : its number of variables, *)
(*   tot     : number of variables so far.                                 *)
(***************************************************************************)
EXTENDS Integers, Sequences, Apalache

VARIABLES
  \* @type: Seq(Int);
  offs,
  \* @type: Seq(Int);
  ns,
  \* @type: Int;
  tot

MaxAssets == 6

Init == offs = <<>> /\ ns = <<>> /\ tot = 0
AddAsset == /\ Len(offs) < MaxAssets
            /\ \E n \in Nat : n >= 1 /\ offs' = Append(offs, tot) /\ ns' = Append(ns, n) /\ tot' = tot + n
Next == AddAsset

IndInv ==
  /\ Len(offs) = Len(ns) /\ Len(offs) <= MaxAssets /\ tot >= 0
  /\ \A k \in DOMAIN offs : ns[k] >= 1 /\ offs[k] >= 0 /\ offs[k] + ns[k] <= tot
  /\ \A k1, k2 \in DOMAIN offs : k1 < k2 => offs[k1] + ns[k1] <= offs[k2]

\* the property: labels are positions inside the joint vectors and injective
LabelsOK ==
  \A k1, k2 \in DOMAIN offs : \A i1, i2 \in Nat :
     (i1 < ns[k1] /\ i2 < ns[k2]) =>
        /\ offs[k1] + i1 < tot
        /\ (offs[k1] + i1 = offs[k2] + i2) => (k1 = k2 /\ i1 = i2)

IndInit == /\ offs = Gen(6) /\ ns = Gen(6) /\ tot = Gen(1) /\ IndInv
=============================================================================
