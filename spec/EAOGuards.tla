----------------------------- MODULE EAOGuards -----------------------------
(***************************************************************************)
(* Named guards and state updates of the physical reference semantics of   *)
(* an EAO portfolio (the "textbook formulation"): what one asset may do in *)
(* one time step, what it costs, and which flows it puts on which node.    *)
(*                                                                         *)
(* Everything here is a pure operator of                                   *)
(*      (configuration c, fixed-point scale K, tolerance tol,              *)
(*       asset index i, step s, legs chosen, asset sub-state)              *)
(* so that ONE definition serves                                           *)
(*   - EAOModel      : enumeration (K = 1, tol = 0, legs from candidates)   *)
(*   - Trace_EAOModel: validation of what the implementation reported      *)
(*                     (K = 1000.., tol > 0, legs = logged values).        *)
(* A guard returns "" when satisfied and otherwise its own NAME, which is  *)
(* what conformance checks report.                                         *)
(*                                                                         *)
(* Units.  Time in ticks; step s of 1..c.T starts at tick c.tp[s] and is   *)
(* c.dt[s] ticks long.  Volumes are integers (times K in traces); rates    *)
(* are volume per tick.  Flows at nodes are kept times c.D (a common       *)
(* denominator of transport efficiencies / commodity factors / order       *)
(* fractions).  A storage level is kept as numerator over eff[2] (the      *)
(* denominator of its charging efficiency).  Money is kept times           *)
(* c.DEN (discount denominator) times c.VS (a common multiple of all       *)
(* other denominators).                                                    *)
(***************************************************************************)
EXTENDS Integers, Sequences, FiniteSets, TLC

Min2(x, y) == IF x < y THEN x ELSE y
Max2(x, y) == IF x > y THEN x ELSE y
Abs(x)     == IF x < 0 THEN -x ELSE x
Within(x, lo, hi, tol) == x >= lo - tol /\ x <= hi + tol

RECURSIVE SeqSum(_)
SeqSum(q) == IF q = <<>> THEN 0 ELSE Head(q) + SeqSum(Tail(q))

\* sum of f[x] over a finite set of integers
RECURSIVE SetSum(_, _)
SetSum(f, S) == IF S = {} THEN 0
                ELSE LET x == CHOOSE y \in S : TRUE IN f[x] + SetSum(f, S \ {x})

SetMax(S) == CHOOSE x \in S : \A y \in S : y <= x
SetMin(S) == CHOOSE x \in S : \A y \in S : x <= y

(***************************************************************************)
(* Windows.  An asset is active on steps ws <= s < we (ws/we may lie       *)
(* outside 1..T: the horizon clips them).                                  *)
(***************************************************************************)
Active(c, a, s)   == 1 <= s /\ s <= c.T /\ a.ws <= s /\ s < a.we
FirstActive(a)    == Max2(a.ws, 1)
LastActive(c, a)  == Min2(a.we - 1, c.T)
HasSteps(c, a)    == FirstActive(a) <= LastActive(c, a)

(***************************************************************************)
(* Well-formedness of a configuration (checked by ASSUME in MC modules).   *)
(***************************************************************************)
CfgOK(c) ==
  /\ c.T >= 1 /\ Len(c.dt) = c.T /\ Len(c.tp) = c.T + 1
  /\ c.tp[1] = 0
  /\ \A s \in 1..c.T : c.dt[s] > 0 /\ c.tp[s + 1] = c.tp[s] + c.dt[s]
  /\ c.D >= 1 /\ c.VS >= 1 /\ c.DEN >= 1

(***************************************************************************)
(* Take periods (minimum / maximum volume inside [tk.s, tk.e) ticks).      *)
(* A step counts for a period when its START lies in the period and the    *)
(* asset is active; a period partly outside the horizon / window is        *)
(* prorated by the covered duration:  sum >= vol * covered / (e - s).      *)
(***************************************************************************)
\* Split optimisation (c.split = set of steps that START a new interval; {} when the horizon is optimised
\* in one piece): every interval is a problem of its own -- storages return to their start level at each
\* interval start and must reach the end level at each interval end (see BlockFirst/BlockLast), and a take
\* period is imposed per interval, prorated by the duration covered inside that interval.
IntervalStart(c, s) == SetMax({1} \cup { b \in c.split : b <= s })
SameInterval(c, s1, s2) == IntervalStart(c, s1) = IntervalStart(c, s2)

TakeCovers(c, a, tk, s) == Active(c, a, s) /\ tk.s <= c.tp[s] /\ c.tp[s] < tk.e
CoveredSteps(c, a, tk, s0) == { s \in 1..c.T : TakeCovers(c, a, tk, s) /\ SameInterval(c, s, s0) }   \* in the interval of s0
CoveredTicks(c, a, tk, s0) == SetSum([s \in 1..c.T |-> c.dt[s]], CoveredSteps(c, a, tk, s0))
LastCovered(c, a, tk, s0)  == IF CoveredSteps(c, a, tk, s0) = {} THEN 0 ELSE SetMax(CoveredSteps(c, a, tk, s0))
FirstCovered(c, a, tk, s0) == IF CoveredSteps(c, a, tk, s0) = {} THEN 0 ELSE SetMin(CoveredSteps(c, a, tk, s0))

\* new cumulated volumes (per interval) of all take periods of asset a after taking q in step s
TookNew(c, a, s, q, took) ==
  [k \in 1..Len(a.takes) |->
     IF ~TakeCovers(c, a, a.takes[k], s) THEN took[k]
     ELSE IF s = FirstCovered(c, a, a.takes[k], s) THEN q ELSE took[k] + q]

TakeChkOne(c, K, tol, a, tk, s, tooknew) ==
  IF s # LastCovered(c, a, tk, s) THEN ""
  ELSE LET w   == tk.e - tk.s
           lhs == tooknew * w
           rhs == tk.vol * CoveredTicks(c, a, tk, s) * K
           tt  == tol * w * Cardinality(CoveredSteps(c, a, tk, s))
       IN IF tk.sense = "min" /\ lhs < rhs - tt THEN "min_take"
          ELSE IF tk.sense = "max" /\ lhs > rhs + tt THEN "max_take"
          ELSE ""

TakeChk(c, K, tol, a, s, tooknew) ==
  LET bad == { TakeChkOne(c, K, tol, a, a.takes[k], s, tooknew[k]) : k \in 1..Len(a.takes) } \ {""}
  IN IF bad = {} THEN "" ELSE CHOOSE x \in bad : TRUE

(***************************************************************************)
(* Coarse asset frequency: within a group of consecutive steps the RATE    *)
(* (volume per tick) of every leg is constant.  Periodicity: the same      *)
(* position of every period carries the same VOLUME on every leg.          *)
(*   a.group[s] = id of the coarse interval of step s (0: none)            *)
(*   a.per[s]   = id of the position-in-period of step s (0: none)         *)
(* st.pl = legs of the previous step, st.psel[p] = legs committed for      *)
(* position p (<<>> while undecided).                                      *)
(***************************************************************************)
SameGroupAsPrev(c, a, s) == s > 1 /\ a.group[s] # 0 /\ a.group[s - 1] = a.group[s] /\ Active(c, a, s - 1) /\ Active(c, a, s)

GroupChk(c, tol, a, s, legs, st) ==
  IF ~SameGroupAsPrev(c, a, s) THEN ""
  ELSE IF \A k \in 1..Len(legs) :
            Abs(legs[k] * c.dt[s - 1] - st.pl[k] * c.dt[s]) <= tol * (c.dt[s] + c.dt[s - 1])
       THEN "" ELSE "group_rate"

PeriodChk(tol, a, s, legs, st) ==
  IF a.per[s] = 0 \/ st.psel[a.per[s]] = <<>> THEN ""
  ELSE IF \A k \in 1..Len(legs) : Abs(legs[k] - st.psel[a.per[s]][k]) <= 2 * tol
       THEN "" ELSE "period_rate"

PselNew(a, s, legs, st) ==
  IF a.per[s] = 0 \/ st.psel[a.per[s]] # <<>> THEN st.psel
  ELSE [st.psel EXCEPT ![a.per[s]] = legs]

\* price paid by a coarse asset: the plain mean of the prices of the merged steps (as documented)
GroupMembers(c, a, s) == { m \in 1..c.T : a.group[m] = a.group[s] /\ Active(c, a, m) }
GPrice(c, a, pr, s) ==
  IF a.group[s] = 0 THEN pr[s]
  ELSE SetSum(pr, GroupMembers(c, a, s)) \div Cardinality(GroupMembers(c, a, s))
GPriceExact(c, a, pr) ==
  \A s \in 1..c.T : a.group[s] # 0 /\ Active(c, a, s) =>
       SetSum(pr, GroupMembers(c, a, s)) % Cardinality(GroupMembers(c, a, s)) = 0
\* families must keep these means integral (part of the ASSUME of every run: a family that does not is a machinery error, never a verdict)
GroupPricesOK(c) ==
  \A i \in 1..Len(c.assets) : LET a == c.assets[i] IN
     /\ (a.kind \in {"contract", "multi"} => GPriceExact(c, a, a.price))
     /\ (a.kind = "transport" => GPriceExact(c, a, a.costts))

(***************************************************************************)
(* Result of one asset doing `legs` in step s from sub-state st:           *)
(*   bad   : "" or the name of the first violated guard                    *)
(*   st    : new sub-state  [lvl, hold, took, pl, psel]                    *)
(*   flows : node -> flow * c.D (into the node positive)                   *)
(*   cost  : discounted cost * c.DEN * c.VS                                *)
(***************************************************************************)
NoFlow(c) == [n \in c.nodes |-> 0]
First(bads) == LET b == SelectSeq(bads, LAMBDA x : x # "") IN IF b = <<>> THEN "" ELSE b[1]

Idle(c, st, legs, tol) ==      \* an asset outside its window: nothing may happen
  [bad   |-> IF \A k \in 1..Len(legs) : Abs(legs[k]) <= tol THEN "" ELSE "outside_window",
   st    |-> st, flows |-> NoFlow(c), cost |-> 0]

\* ---------------------------------------------------------------- contract
\* legs = <<qi, qo>> : volume taken out of the node (qi <= 0) / delivered into the node (qo >= 0)
\* price[s] is paid per unit delivered into the node; the spread ec is paid on either leg.
ContractStep(c, K, tol, a, s, legs, st) ==
  IF ~Active(c, a, s) THEN Idle(c, st, legs, tol)
  ELSE LET d     == c.dt[s]
           qi    == legs[1]
           qo    == legs[2]
           q     == qi + qo
           capok == /\ Within(qi, Min2(0, a.lo[s]) * d * K, Min2(0, a.hi[s]) * d * K, tol)
                    /\ Within(qo, Max2(0, a.lo[s]) * d * K, Max2(0, a.hi[s]) * d * K, tol)
           tn    == TookNew(c, a, s, q, st.took)
           p     == GPrice(c, a, a.price, s)
       IN [bad   |-> First(<< IF capok THEN "" ELSE "cap",
                              TakeChk(c, K, tol, a, s, tn),
                              GroupChk(c, tol, a, s, legs, st),
                              PeriodChk(tol, a, s, legs, st) >>),
           st    |-> [st EXCEPT !.took = tn, !.pl = legs, !.psel = PselNew(a, s, legs, st)],
           flows |-> [n \in c.nodes |-> IF n = a.node THEN q * c.D ELSE 0],
           cost  |-> ((p - a.ec) * qi + (p + a.ec) * qo) * a.disc[s] * c.VS]

\* ------------------------------------------------- multi-commodity contract
\* one decision q like a contract; node a.mnodes[k] receives q * factor[k]
MultiStep(c, K, tol, a, s, legs, st) ==
  IF ~Active(c, a, s) THEN Idle(c, st, legs, tol)
  ELSE LET r == ContractStep(c, K, tol, [a EXCEPT !.node = "_none_"], s, legs, st)
           q == legs[1] + legs[2]
       IN [r EXCEPT !.flows =
             [n \in c.nodes |->
                SeqSum([k \in 1..Len(a.mnodes) |->
                          IF a.mnodes[k] = n THEN q * a.factors[k][1] * (c.D \div a.factors[k][2]) ELSE 0])]]

\* --------------------------------------------------------------- transport
\* legs = <<f>> : volume taken from node n1; n2 receives f * eff.  Costs act on |f|.
TransportStep(c, K, tol, a, s, legs, st) ==
  IF ~Active(c, a, s) THEN Idle(c, st, legs, tol)
  ELSE LET d  == c.dt[s]
           f  == legs[1]
           tn == TookNew(c, a, s, f, st.took)
       IN [bad   |-> First(<< IF Within(f, a.lo * d * K, a.hi * d * K, tol) THEN "" ELSE "cap",
                              TakeChk(c, K, tol, a, s, tn),
                              GroupChk(c, tol, a, s, legs, st),
                              PeriodChk(tol, a, s, legs, st) >>),
           st    |-> [st EXCEPT !.took = tn, !.pl = legs, !.psel = PselNew(a, s, legs, st)],
           flows |-> [n \in c.nodes |-> (IF n = a.n1 THEN -f * c.D ELSE 0)
                                       + (IF n = a.n2 THEN f * a.eff[1] * (c.D \div a.eff[2]) ELSE 0)],
           cost  |-> (a.cost + GPrice(c, a, a.costts, s)) * Abs(f) * a.disc[s] * c.VS]

\* ----------------------------------------------------------------- storage
\* legs = <<qi, qo>> : charged from node nin (qi <= 0) / discharged into node nout (qo >= 0)
\* level' = level + inflow * dt + eff * (-qi) - qo      (numerator over eff[2])
\* a.blocks : set of steps that START a new time block (level returns to start level there,
\*            and must equal the end level on the step before)
BlockFirst(c, a, s) == s = FirstActive(a) \/ s \in a.blocks \/ s \in c.split
BlockLast(c, a, s)  == s = LastActive(c, a) \/ (s + 1) \in a.blocks \/ (s + 1) \in c.split
BlockStartStep(c, a, s) == SetMax({ b \in FirstActive(a)..s : BlockFirst(c, a, b) })

StorageNew(c, K, a, s, qi, qo, cur) ==
  LET base == IF BlockFirst(c, a, s) THEN a.start * a.eff[2] * K ELSE cur
  IN  base + a.inflow * c.dt[s] * a.eff[2] * K - a.eff[1] * qi - a.eff[2] * qo

\* the part of the level caused by dispatch (holding costs are charged on this part only:
\* EAO documents that the constant contribution of start level and inflow is not part of the value)
StorageDispatched(c, K, a, s, new) ==
  new - a.start * a.eff[2] * K
      - a.inflow * (c.tp[s + 1] - c.tp[BlockStartStep(c, a, s)]) * a.eff[2] * K

StorageStep(c, K, tol, a, s, legs, st) ==
  IF ~Active(c, a, s) THEN Idle(c, st, legs, tol)
  ELSE LET d    == c.dt[s]
           qi   == legs[1]
           qo   == legs[2]
           e2   == a.eff[2]
           new  == StorageNew(c, K, a, s, qi, qo, st.lvl)
           ltol == tol * (a.eff[1] + e2) * s          \* rounding of every leg so far
           rate == Within(qi, -a.cin * d * K, 0, tol) /\ Within(qo, 0, a.cout * d * K, tol)
           lvl  == IF BlockLast(c, a, s)
                   THEN IF Within(new, a.end * e2 * K, a.end * e2 * K, ltol) THEN "" ELSE "end_level"
                   ELSE IF new < -ltol THEN "level_lo"
                   ELSE IF new > a.size * e2 * K + ltol THEN "level_hi" ELSE ""
           sim  == IF a.nosimult /\ qi < -tol /\ qo > tol THEN "simult" ELSE ""
           hn   == IF new > ltol THEN (IF BlockFirst(c, a, s) THEN 0 ELSE st.hold) + d ELSE 0
           hld  == IF a.maxhold >= 0 /\ hn > a.maxhold THEN "hold" ELSE ""
       IN [bad   |-> First(<< IF rate THEN "" ELSE "rate", lvl, sim, hld,
                              GroupChk(c, tol, a, s, legs, st), PeriodChk(tol, a, s, legs, st) >>),
           st    |-> [st EXCEPT !.lvl = new, !.hold = hn, !.pl = legs, !.psel = PselNew(a, s, legs, st)],
           flows |-> [n \in c.nodes |-> (IF n = a.nin THEN qi * c.D ELSE 0) + (IF n = a.nout THEN qo * c.D ELSE 0)],
           cost  |-> (-a.costin * qi + a.costout * qo) * a.disc[s] * c.VS
                     + a.coststore * d * a.disc[s] * StorageDispatched(c, K, a, s, new) * (c.VS \div e2)]

\* -------------------------------------------------------------- order book
\* no per-step decision: execution fractions frac[o] / a.fden are committed up front;
\* an order covers the steps whose start lies in [o.s, o.e)
OrderCovers(c, o, s) == 1 <= s /\ s <= c.T /\ o.s <= c.tp[s] /\ c.tp[s] < o.e
OrderInert(c, o)     == \A s \in 1..c.T : ~OrderCovers(c, o, s)
OrderFracChk(a, frac) ==
  IF \E o \in 1..Len(a.orders) : frac[o] < 0 \/ frac[o] > a.fden THEN "order_frac"
  ELSE IF a.fullexec /\ \E o \in 1..Len(a.orders) : frac[o] \notin {0, a.fden} THEN "order_full"
  ELSE ""
\* delivered volume * fden in step s (K-scaled fractions: frac is fraction * fden * K)
OrderVolume(c, a, s, frac) ==
  SeqSum([o \in 1..Len(a.orders) |-> IF OrderCovers(c, a.orders[o], s) THEN frac[o] * a.orders[o].capa * c.dt[s] ELSE 0])
OrderPay(c, a, s, frac) ==
  SeqSum([o \in 1..Len(a.orders) |->
            IF OrderCovers(c, a.orders[o], s) THEN frac[o] * a.orders[o].capa * a.orders[o].price * c.dt[s] ELSE 0])
OrderStep(c, K, tol, a, s, legs, st, frac) ==
  [bad   |-> "", st |-> st,
   flows |-> [n \in c.nodes |-> IF n = a.node THEN OrderVolume(c, a, s, frac) * (c.D \div a.fden) ELSE 0],
   cost  |-> OrderPay(c, a, s, frac) * a.disc[s] * (c.VS \div a.fden)]

\* ------------------------------------------------------------------ dispatch
NLegs(a) == CASE a.kind = "transport" -> 1 [] a.kind = "orderbook" -> 0 [] OTHER -> 2

BaseStep(c, K, tol, a, s, legs, st, frac) ==
  CASE a.kind = "contract"  -> ContractStep(c, K, tol, a, s, legs, st)
    [] a.kind = "multi"     -> MultiStep(c, K, tol, a, s, legs, st)
    [] a.kind = "transport" -> TransportStep(c, K, tol, a, s, legs, st)
    [] a.kind = "storage"   -> StorageStep(c, K, tol, a, s, legs, st)
    [] a.kind = "orderbook" -> OrderStep(c, K, tol, a, s, legs, st, frac)

\* An asset held at a fixed scale is its base asset with all capacities multiplied (that is how the configuration
\* states it) less fixed costs  a.fixrate = scale x cost rate  per tick of its active duration -- not discounted.
AssetStep(c, K, tol, a, s, legs, st, frac) ==
  LET r == BaseStep(c, K, tol, a, s, legs, st, frac) IN
  \* the fixed costs run over the scaled asset's OWN window [fws, fwe), which need not be the window of its base asset
  IF "fixrate" \in DOMAIN a /\ 1 <= s /\ s <= c.T /\ a.fws <= s /\ s < a.fwe
  THEN [r EXCEPT !.cost = @ + a.fixrate * c.dt[s] * c.DEN * c.VS * K]
  ELSE r

InitSub(a) ==
  [lvl  |-> 0, hold |-> 0,
   took |-> IF "takes" \in DOMAIN a THEN [k \in 1..Len(a.takes) |-> 0] ELSE <<>>,
   pl   |-> <<>>,
   psel |-> IF "np" \in DOMAIN a THEN [p \in 1..a.np |-> <<>>] ELSE <<>>]

\* nodal balance of a joint step: rs = sequence of AssetStep results
NodeSum(rs, n) == SeqSum([i \in 1..Len(rs) |-> rs[i].flows[n]])
Imbalanced(c, rs, btol) == { n \in c.nodes : Abs(NodeSum(rs, n)) > btol }
=============================================================================
