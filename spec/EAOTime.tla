------------------------------- MODULE EAOTime -------------------------------
(***************************************************************************)
(* Time grids, sub-grids and interval data (C19), transcribing the         *)
(* documented meaning -- not the pandas calls.                             *)
(*                                                                         *)
(* Absolute time in hour ticks since an anchor (local midnight of day 0,   *)
(* standard offset).  A zone is [sw, d]: no offset before the absolute     *)
(* tick sw, offset d afterwards (d = +1 spring forward, d = -1 fall back,  *)
(* d = 0 naive).  Users give LOCAL wall-clock times; local hours that do   *)
(* not exist / are ambiguous are not used as inputs.                       *)
(*                                                                         *)
(* A frequency is [k, cal]: cal = FALSE steps k hours in ABSOLUTE time,    *)
(* cal = TRUE steps k calendar days in LOCAL time.                         *)
(*                                                                         *)
(* State machine mirroring the Timegrid object:                            *)
(*   New            -> the grid (points, step lengths, cumulated lengths)  *)
(*   SetRestricted  -> same-frequency sub-grid of a window [ws, we)        *)
(*   SetCoarse      -> coarser sub-grid: groups of fine steps              *)
(*   Assign         -> interval data cast onto the grid                    *)
(*   PricesToGrid   -> timestamped price points cast onto the grid         *)
(* Every reachable state is emitted with the expected result; the harness  *)
(* performs the same call on the real Timegrid and compares exactly.       *)
(***************************************************************************)
EXTENDS Integers, Sequences, FiniteSets, TLC, Json

CONSTANTS Zones, Freqs, Starts, Ends, Mtus, WinStarts, WinEnds, CoarseFreqs, IntervalLists, PriceLists

Off(z, a)    == IF z.d = 0 \/ a < z.sw THEN 0 ELSE z.d
Local(z, a)  == a + Off(z, a)
Exists(z, l) == z.d # 1 \/ l < z.sw \/ l >= z.sw + 1
Unamb(z, l)  == z.d # -1 \/ l < z.sw - 1 \/ l >= z.sw
Usable(z, l) == Exists(z, l) /\ Unamb(z, l)
Abs(z, l)    == IF z.d = 0 THEN l ELSE IF z.d = 1 THEN (IF l < z.sw THEN l ELSE l - 1) ELSE (IF l < z.sw - 1 THEN l ELSE l + 1)

RECURSIVE PointsFrom(_, _, _, _, _)
PointsFrom(z, f, s, e, i) ==          \* p_0 = s, p_1, ... while p_i <= e
  LET p == IF f.cal THEN Abs(z, Local(z, s) + 24 * f.k * i) ELSE s + f.k * i
  IN IF p > e THEN <<>> ELSE <<p>> \o PointsFrom(z, f, s, e, i + 1)

RECURSIVE SeqSumT(_)
SeqSumT(q) == IF q = <<>> THEN 0 ELSE Head(q) + SeqSumT(Tail(q))

\* step length in main time units as <<numerator, denominator>> (mtu in ticks given as <<n, d>> ticks per unit)
InUnit(ticks, mtu) == <<ticks * mtu[2], mtu[1]>>

Grid(z, f, sl, el) ==
  LET s == Abs(z, sl)  e == Abs(z, el)
      all == PointsFrom(z, f, s, e, 0)
      T == Len(all) - 1
  IN [T |-> T, pts |-> SubSeq(all, 1, T), dt |-> [i \in 1..T |-> all[i + 1] - all[i]],
      Dt |-> [i \in 1..T |-> all[i + 1] - all[1]], s |-> s, e |-> e]

\* same-frequency restriction: the index-consistent subset of points in [ws, we)
Restrict(z, g, wsl, wel) ==
  LET ws == Abs(z, wsl) we == Abs(z, wel)
      I == { i \in 1..g.T : g.pts[i] >= ws /\ g.pts[i] < we }
  IN [I |-> I, dt |-> [i \in I |-> g.dt[i]], Dt |-> [i \in I |-> g.Dt[i]], pts |-> [i \in I |-> g.pts[i]]]

\* coarse sub-grid: consecutive coarse intervals from the window start, the last one closed at the window end;
\* a group is the set of fine steps starting inside the coarse interval; empty groups are no groups
Coarse(z, g, cf, wsl, wel) ==
  LET ws == Abs(z, wsl)  we == Abs(z, wel)
      marks == PointsFrom(z, cf, ws, we, 0)
      ext == IF marks = <<>> \/ marks[Len(marks)] < we THEN Append(marks, we) ELSE marks
      all == [k \in 1..(Len(ext) - 1) |-> { i \in 1..g.T : g.pts[i] >= ext[k] /\ g.pts[i] < ext[k + 1] }]
  IN SelectSeq(all, LAMBDA S : S # {})
GroupLen(g, S) == LET f[i \in 0..g.T] == IF i = 0 THEN 0 ELSE f[i - 1] + (IF i \in S THEN g.dt[i] ELSE 0) IN f[g.T]

\* interval data: list of [s, e, v] (local times; e = -1: not given).  Implicit ends: the next start; the last interval
\* extends twice the previous spacing; a single interval is valid for ever.
IvEnd(iv, k) ==
  IF iv[k].e # -1 THEN iv[k].e
  ELSE IF Len(iv) = 1 THEN 1000000
  ELSE IF k < Len(iv) THEN iv[k + 1].s
  ELSE iv[k].s + 2 * (iv[k].s - iv[k - 1].s)
Containing(z, iv, p) == { k \in 1..Len(iv) : Abs(z, iv[k].s) <= p /\ p < (IF IvEnd(iv, k) >= 1000000 THEN 1000000 ELSE Abs(z, IvEnd(iv, k))) }
Undefined == -999
Assign(z, g, iv) ==
  [overlap |-> \E i \in 1..g.T : Cardinality(Containing(z, iv, g.pts[i])) > 1,
   vals    |-> [i \in 1..g.T |-> LET C == Containing(z, iv, g.pts[i]) IN
                                 IF C = {} THEN Undefined ELSE iv[CHOOSE k \in C : \A k2 \in C : k <= k2].v]]

\* timestamped prices (a list of [t, v], local times, in any order, distinct): the price at a grid point is the linear interpolation
\* in ABSOLUTE time between the neighbouring price points, constant before the first and after the last one; <<num, den>>
PriceAt(z, P, p) ==
  LET T == { Abs(z, P[k].t) : k \in 1..Len(P) }
      V(a) == P[CHOOSE k \in 1..Len(P) : Abs(z, P[k].t) = a].v
      lo == { a \in T : a <= p }   hi == { a \in T : a >= p }
  IN IF lo = {} THEN <<V(CHOOSE a \in T : \A b \in T : a <= b), 1>>
     ELSE IF hi = {} THEN <<V(CHOOSE a \in T : \A b \in T : a >= b), 1>>
     ELSE LET a0 == CHOOSE a \in lo : \A b \in lo : a >= b
              a1 == CHOOSE a \in hi : \A b \in hi : a <= b
          IN IF a0 = a1 THEN <<V(a0), 1>> ELSE <<V(a0) * (a1 - a0) + (V(a1) - V(a0)) * (p - a0), a1 - a0>>

Cases == { c \in [z : Zones, f : Freqs, sl : Starts, el : Ends, mtu : Mtus] :
             /\ c.sl < c.el /\ Usable(c.z, c.sl) /\ Usable(c.z, c.el) /\ Abs(c.z, c.sl) < Abs(c.z, c.el) }

VARIABLES c, op, out
vars == <<c, op, out>>
G == Grid(c.z, c.f, c.sl, c.el)
Windows == { w \in WinStarts \X WinEnds : w[1] < w[2] /\ Usable(c.z, w[1]) /\ Usable(c.z, w[2]) }

Init == c \in Cases /\ op = [kind |-> "new"] /\ out = G
SetRestricted == \E w \in Windows :
     /\ op' = [kind |-> "restrict", ws |-> w[1], we |-> w[2]]
     /\ out' = Restrict(c.z, G, w[1], w[2])
SetCoarse == \E w \in Windows : \E cf \in CoarseFreqs :
     /\ op' = [kind |-> "coarse", ws |-> w[1], we |-> w[2], cf |-> cf]
     /\ out' = [groups |-> Coarse(c.z, G, cf, w[1], w[2])]
AssignIv == \E iv \in IntervalLists :
     \* (compared with TRUE so that TLC evaluates the guard as a value instead of branching on its disjunctions)
     /\ (\A k \in 1..Len(iv) : Usable(c.z, iv[k].s) /\ (iv[k].e = -1 \/ Usable(c.z, iv[k].e))) = TRUE
     /\ op' = [kind |-> "assign", iv |-> iv]
     /\ out' = Assign(c.z, G, iv)
PricesToGrid == \E P \in PriceLists :
     /\ (\A k \in 1..Len(P) : Usable(c.z, P[k].t)) = TRUE
     /\ (\A k1, k2 \in 1..Len(P) : k1 # k2 => Abs(c.z, P[k1].t) # Abs(c.z, P[k2].t)) = TRUE
     /\ op' = [kind |-> "prices", P |-> P]
     /\ out' = [vals |-> [i \in 1..G.T |-> PriceAt(c.z, P, G.pts[i])]]
\* operations are independent of each other (the object keeps only the last sub-grid): all are explored from the new grid
Next == op.kind = "new" /\ (SetRestricted \/ SetCoarse \/ AssignIv \/ PricesToGrid) /\ UNCHANGED c
Spec == Init /\ [][Next]_vars

(***************************************************************************)
(* Invariants = the clauses of C19, checked by TLC in every state.         *)
(***************************************************************************)
Increasing    == \A i \in 1..(G.T - 1) : G.pts[i] < G.pts[i + 1]
StartsAtStart == G.T > 0 => G.pts[1] = G.s
BeforeEnd     == \A i \in 1..G.T : G.pts[i] < G.e
StepLenTrue   == \A i \in 1..G.T : G.dt[i] > 0 /\ (i < G.T => G.dt[i] = G.pts[i + 1] - G.pts[i])
CumLenTrue    == \A i \in 1..G.T : G.Dt[i] = SeqSumT(SubSeq(G.dt, 1, i))
RestrictDef   == op.kind = "restrict" =>
                   /\ \A i \in 1..G.T : (i \in out.I) <=> (Abs(c.z, op.ws) <= G.pts[i] /\ G.pts[i] < Abs(c.z, op.we))
                   /\ \A i \in out.I : out.dt[i] = G.dt[i] /\ out.Dt[i] = G.Dt[i]
CoarsePartition == op.kind = "coarse" =>
                   LET R == Restrict(c.z, G, op.ws, op.we).I grp == out.groups IN
                   /\ UNION { grp[k] : k \in 1..Len(grp) } = R                           \* without loss
                   /\ \A k1, k2 \in 1..Len(grp) : k1 # k2 => grp[k1] \cap grp[k2] = {}   \* a partition
                   /\ \A k \in 1..Len(grp) : grp[k] # {}
                   /\ SeqSumT([k \in 1..Len(grp) |-> GroupLen(G, grp[k])]) = GroupLen(G, R)
AssignDef     == op.kind = "assign" =>
                   \A i \in 1..G.T : LET C == Containing(c.z, op.iv, G.pts[i]) IN
                      /\ (C = {}) <=> (out.vals[i] = Undefined)
                      /\ (Cardinality(C) > 1) => out.overlap
                      /\ (Cardinality(C) = 1) => out.vals[i] = op.iv[CHOOSE k \in C : TRUE].v

\* a grid point that carries a price point gets exactly its value; every value lies between the smallest and the largest price
PricesDef     == op.kind = "prices" =>
                   /\ \A i \in 1..G.T : \A k \in 1..Len(op.P) : Abs(c.z, op.P[k].t) = G.pts[i] => out.vals[i] = <<op.P[k].v, 1>>
                   /\ \A i \in 1..G.T : \A k \in 1..Len(op.P) :
                        ((\A k2 \in 1..Len(op.P) : op.P[k].v <= op.P[k2].v) => out.vals[i][1] >= op.P[k].v * out.vals[i][2])
                        /\ ((\A k2 \in 1..Len(op.P) : op.P[k].v >= op.P[k2].v) => out.vals[i][1] <= op.P[k].v * out.vals[i][2])

EmitRec == [c |-> c, op |-> op,
            out |-> IF op.kind = "new" THEN [T |-> G.T, pts |-> G.pts, dt |-> G.dt, Dt |-> G.Dt]
                    ELSE IF op.kind = "restrict" THEN [I |-> out.I]
                    ELSE IF op.kind = "coarse" THEN [groups |-> out.groups, len |-> [k \in 1..Len(out.groups) |-> GroupLen(G, out.groups[k])]]
                    ELSE IF op.kind = "prices" THEN [vals |-> out.vals]
                    ELSE [overlap |-> out.overlap, vals |-> out.vals]]
Emit == PrintT(<<"CASE", ToJson(EmitRec)>>)
=============================================================================
