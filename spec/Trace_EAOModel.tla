--------------------------- MODULE Trace_EAOModel ---------------------------
(***************************************************************************)
(* Code -> spec: is what the implementation reported (optimal x mapped to  *)
(* legs, the dispatch / fill-level / DCF tables of extract_output, the     *)
(* value) a behaviour of EAOModel?  The guards are those of EAOGuards, the *)
(* very operators the enumerating model uses; the existential choice of a  *)
(* move is replaced by the logged move.  A batch of traces is validated in *)
(* one TLC run (variable tid); the verdict of trace i is left in TLC       *)
(* register i: <<line, "accepted">> or <<line, name-of-failed-guard>>.     *)
(*                                                                         *)
(* Trace record (JSON, numbers in fixed point, K = units per 1.0):         *)
(*  cfg   the configuration (as emitted for EAOModel)                      *)
(*  K, tol, vtol                                                           *)
(*  frac  [asset] -> sequence of order fractions * fden * K                *)
(*  steps sequence of [legs  |-> [asset] -> legs * K,                      *)
(*                     rflow |-> [asset] -> [node -> reported dispatch*D*K]*)
(*                     rlvl  |-> [asset] -> reported fill level*eff[2]*K,  *)
(*                     rch, rdis |-> [asset] -> reported charge/discharge*K*)
(*  rdcf  [asset] -> reported DCF total * DEN * VS * K                     *)
(*  cx    [asset] -> (-c_a . x_a) * DEN * VS * K                           *)
(*  rval  reported value * DEN * VS * K                                    *)
(*  chk   set of optional report checks to apply ("level","chdis")         *)
(***************************************************************************)
EXTENDS EAOGuards, Json, IOUtils, SequencesExt

Traces == ndJsonDeserialize(IOEnv.TRACE_FILE)
ASSUME \A i \in 1..Len(Traces) : TLCSet(i, <<0, "init">>)

VARIABLES tid, l, sub, aval, why
vars == <<tid, l, sub, aval, why>>

Tr  == Traces[tid]
NormAsset(a) == IF a.kind = "storage" THEN [a EXCEPT !.blocks = ToSet(@)] ELSE a
C   == [Tr.cfg EXCEPT !.nodes = ToSet(@), !.split = ToSet(@), !.assets = [i \in 1..Len(@) |-> NormAsset(@[i])]]
K   == Tr.K
Tol == Tr.tol
NA  == Len(C.assets)
Has(x) == x \in ToSet(Tr.chk)

\* ---- commit line: order fractions
CommitFail ==
  LET F(i) == LET a == C.assets[i] f == Tr.frac[i] IN
        IF a.kind # "orderbook" THEN ""
        ELSE IF \E o \in 1..Len(a.orders) : ~Within(f[o], 0, a.fden * K, Tol) THEN "order_frac"
        ELSE IF a.fullexec /\ \E o \in 1..Len(a.orders) : Abs(f[o]) > Tol /\ Abs(f[o] - a.fden * K) > Tol THEN "order_full"
        ELSE ""
      bad == { <<i, F(i)>> : i \in 1..NA } IN
  IF \A b \in bad : b[2] = "" THEN "" ELSE LET b == CHOOSE x \in bad : x[2] # "" IN b[2] \o "@asset" \o ToString(b[1])

\* ---- one step line
Results(s, ev) == [i \in 1..NA |-> AssetStep(C, K, Tol, C.assets[i], s, ev.legs[i], sub[i], Tr.frac[i])]

ReportFail(s, ev, rs) ==    \* what the implementation REPORTED must be what the legs imply
  LET F(i) == LET a == C.assets[i] r == rs[i] IN
        IF \E n \in C.nodes : Abs(ev.rflow[i][n] - r.flows[n]) > Tol * C.D * 4 THEN "reported_dispatch"
        ELSE IF a.kind = "storage" /\ Has("level") /\ Active(C, a, s)
                /\ Abs(ev.rlvl[i] - r.st.lvl) > Tol * (a.eff[1] + a.eff[2]) * (s + 1) THEN "storage_reported_level"
        ELSE IF a.kind = "storage" /\ Has("chdis")
                /\ (Abs(ev.rch[i] + ev.legs[i][1]) > 2 * Tol \/ Abs(ev.rdis[i] - ev.legs[i][2]) > 2 * Tol) THEN "storage_reported_charge_discharge"
        ELSE ""
      bad == { <<i, F(i)>> : i \in 1..NA } IN
  IF \A b \in bad : b[2] = "" THEN "" ELSE LET b == CHOOSE x \in bad : x[2] # "" IN b[2] \o "@asset" \o ToString(b[1])

StepFail(s, ev, rs) ==
  LET gb  == { <<i, rs[i].bad>> : i \in 1..NA }
      imb == Imbalanced(C, rs, Tol * C.D * 2 * NA)
  IN IF \E b \in gb : b[2] # "" THEN LET b == CHOOSE x \in gb : x[2] # "" IN b[2] \o "@asset" \o ToString(b[1])
     ELSE IF imb # {} THEN "balance@node_" \o (CHOOSE n \in imb : TRUE)
     ELSE ReportFail(s, ev, rs)

\* ---- finish line: value accounting (C04)
FinishFail ==
  LET tot == SeqSum([i \in 1..NA |-> Tr.rdcf[i]])
      F(i) == IF Abs(Tr.rdcf[i] - aval[i]) > Tr.vtol THEN "dcf_total_differs_from_model"
              ELSE IF Abs(Tr.cx[i] - Tr.rdcf[i]) > Tr.vtol THEN "dcf_differs_from_cost_vector"
              ELSE ""
      bad == { <<i, F(i)>> : i \in 1..NA }
  IN IF Abs(Tr.rval - tot) > Tr.vtol THEN "value_is_not_sum_of_dcf"
     ELSE IF \A b \in bad : b[2] = "" THEN "" ELSE LET b == CHOOSE x \in bad : x[2] # "" IN b[2] \o "@asset" \o ToString(b[1])

NSteps == Len(Tr.steps)

Init == /\ tid \in 1..Len(Traces)
        /\ l = 0 /\ why = ""
        /\ sub  = [i \in 1..Len(Traces[tid].cfg.assets) |-> InitSub(Traces[tid].cfg.assets[i])]
        /\ aval = [i \in 1..Len(Traces[tid].cfg.assets) |-> 0]

TraceCommit == /\ l = 0 /\ why = ""
               /\ why' = CommitFail
               /\ l' = 1 /\ UNCHANGED <<tid, sub, aval>>

TraceStep == /\ l >= 1 /\ l <= NSteps /\ why = ""
             /\ LET ev == Tr.steps[l]
                    rs == Results(l, ev)
                IN /\ why'  = StepFail(l, ev, rs)
                   /\ sub'  = [i \in 1..NA |-> rs[i].st]
                   /\ aval' = [i \in 1..NA |-> aval[i] - rs[i].cost]
             /\ l' = l + 1 /\ UNCHANGED tid

TraceFinish == /\ l = NSteps + 1 /\ why = ""
               /\ why' = FinishFail
               /\ l' = l + 1 /\ UNCHANGED <<tid, sub, aval>>

Next == TraceCommit \/ TraceStep \/ TraceFinish
Spec == Init /\ [][Next]_vars

\* CONSTRAINT: record the verdict of this trace (first failure wins; acceptance needs the finish line)
Mark == TLCSet(tid, IF why # "" THEN <<l - 1, why>>
                    ELSE IF l = NSteps + 2 THEN <<l - 1, "accepted">> ELSE TLCGet(tid))
Post == \A i \in 1..Len(Traces) : PrintT(<<"VERDICT", i, TLCGet(i)>>)
=============================================================================
