------------------------------ MODULE EAOSolve ------------------------------
(***************************************************************************)
(* Contract of OptimProblem.optimize (C03) on tiny integral programs       *)
(*      maximise  -c.x   s.t.  l <= x <= u,  rows by class, booleans       *)
(* A program p: n, c, l, u (integer sequences), rows: sequence of          *)
(* [a: Seq(Int), b: Int, cls: "U"|"L"|"S"|"N"], bools: Seq(BOOLEAN).       *)
(* Optional field den: Seq(Nat \ {0}) -- the bounds of variable j are the   *)
(* rationals l[j]/den[j], u[j]/den[j] (only boolean variables get          *)
(* den # 1: a boolean with bounds [1/2, 1] must be 1, with [0, 7/10] must  *)
(* be 0, with [3/10, 3/10] has no value at all).                           *)
(* Row classes: U: a.x <= b, L: a.x >= b, S and N: a.x = b.                 *)
(*                                                                         *)
(* The optimiser is a system with three possible responses; each is an     *)
(* action with an enabling condition over the program:                     *)
(*   ReturnSolution(x, v) : x satisfies every bound, every row according   *)
(*        to its class, every boolean flag; v = -c.x; no feasible point    *)
(*        is better                                                        *)
(*   ReturnFailure        : the program has no feasible point              *)
(*   ReturnInaccurate     : always (makes no claim)                        *)
(* With make_soft_problem the same contract holds for the relaxation (the  *)
(* boolean flags dropped; bounds kept).                                    *)
(* The generated programs have integral polytopes (interval rows, integer  *)
(* data) or only integer variables, so "no feasible point is better" and   *)
(* "no feasible point" are decided exactly on the integer lattice of the   *)
(* box, which TLC enumerates.                                              *)
(*                                                                         *)
(* Conformance: each recorded call (program, response; x in fixed point K) *)
(* is one trace; TLC decides whether the recorded response is enabled and  *)
(* leaves <<1, "accepted">> or <<1, name of the violated clause>> in       *)
(* register i.                                                             *)
(***************************************************************************)
EXTENDS Integers, Sequences, FiniteSets, TLC, Json, IOUtils

Abs(x) == IF x < 0 THEN -x ELSE x
RECURSIVE Dot(_, _)
Dot(a, x) == IF a = <<>> THEN 0 ELSE Head(a) * Head(x) + Dot(Tail(a), Tail(x))

Den(p, k) == IF "den" \in DOMAIN p THEN p.den[k] ELSE 1
FloorQ(a, d) == a \div d                     \* TLA+ \div rounds towards minus infinity (d > 0)
CeilQ(a, d) == -((-a) \div d)
\* ---- exact semantics on the lattice
RowOK(r, y) == LET v == Dot(r.a, y) IN
  CASE r.cls = "U" -> v <= r.b [] r.cls = "L" -> v >= r.b [] r.cls \in {"S", "N"} -> v = r.b
RECURSIVE Points(_, _)
Points(p, k) ==      \* all integer points of the box restricted to coordinates 1..k, booleans within {0,1}
  IF k = 0 THEN { <<>> }
  ELSE LET lk == CeilQ(p.l[k], Den(p, k))       \* smallest / largest integer within the (rational) bounds
           uk == FloorQ(p.u[k], Den(p, k))
           lo == IF p.bools[k] /\ lk < 0 THEN 0 ELSE lk
           hi == IF p.bools[k] /\ uk > 1 THEN 1 ELSE uk
       IN { Append(y, v) : y \in Points(p, k - 1), v \in lo..hi }
Feasible(p) == { y \in Points(p, p.n) : \A i \in 1..Len(p.rows) : RowOK(p.rows[i], y) }
Value(p, y) == -Dot(p.c, y)
Best(p) == LET F == Feasible(p) IN CHOOSE v \in { Value(p, y) : y \in F } : \A y \in F : Value(p, y) <= v

\* ---- the recorded response, in fixed point (x * K), tolerance tol, value tolerance vtol
SolutionClause(p, K, tol, vtol, x, v) ==
  LET rowtol(r) == tol * (1 + Dot([j \in 1..p.n |-> Abs(r.a[j])], [j \in 1..p.n |-> 1]))
      badrow == { i \in 1..Len(p.rows) :
                    LET r == p.rows[i] lhs == Dot(r.a, x) IN
                    CASE r.cls = "U" -> lhs > r.b * K + rowtol(r)
                      [] r.cls = "L" -> lhs < r.b * K - rowtol(r)
                      [] r.cls \in {"S", "N"} -> Abs(lhs - r.b * K) > rowtol(r) }
  IN IF \E j \in 1..p.n : x[j] * Den(p, j) < p.l[j] * K - tol * Den(p, j) \/ x[j] * Den(p, j) > p.u[j] * K + tol * Den(p, j) THEN "bound"
     ELSE IF badrow # {} THEN "row_" \o p.rows[CHOOSE i \in badrow : TRUE].cls
     ELSE IF \E j \in 1..p.n : p.bools[j] /\ Abs(x[j]) > tol /\ Abs(x[j] - K) > tol THEN "boolean"
     ELSE IF Abs(v + Dot(p.c, x)) > vtol THEN "value_is_not_minus_cx"
     ELSE IF Feasible(p) = {} THEN "solution_but_infeasible_program"
     ELSE IF v < Best(p) * K - vtol THEN "not_optimal"
     ELSE IF v > Best(p) * K + vtol THEN "better_than_optimum"
     ELSE ""

Traces == ndJsonDeserialize(IOEnv.TRACE_FILE)
ASSUME \A i \in 1..Len(Traces) : TLCSet(i, <<0, "init">>)
VARIABLES tid, done, why
vars == <<tid, done, why>>
Tr == Traces[tid]
\* optimize(make_soft_problem = TRUE): the boolean flags are dropped, the program solved is the relaxation
Prog == IF "soft" \in DOMAIN Tr /\ Tr.soft THEN [Tr.p EXCEPT !.bools = [j \in 1..Tr.p.n |-> FALSE]] ELSE Tr.p

Init == tid \in 1..Len(Traces) /\ done = FALSE /\ why = ""

ReturnSolution ==
  /\ ~done /\ Tr.kind = "solution"
  /\ why' = SolutionClause(Prog, Tr.K, Tr.tol, Tr.vtol, Tr.x, Tr.v)
  /\ done' = TRUE /\ UNCHANGED tid
ReturnFailure ==
  /\ ~done /\ Tr.kind = "failure"
  /\ why' = IF Feasible(Prog) = {} THEN "" ELSE "failure_reported_but_feasible"
  /\ done' = TRUE /\ UNCHANGED tid
ReturnInaccurate ==
  /\ ~done /\ Tr.kind = "inaccurate"
  /\ why' = "" /\ done' = TRUE /\ UNCHANGED tid

Next == ReturnSolution \/ ReturnFailure \/ ReturnInaccurate
Spec == Init /\ [][Next]_vars

Mark == TLCSet(tid, IF ~done THEN TLCGet(tid) ELSE IF why = "" THEN <<1, "accepted">> ELSE <<1, why>>)
Post == \A i \in 1..Len(Traces) : PrintT(<<"VERDICT", i, TLCGet(i)>>)
=============================================================================
