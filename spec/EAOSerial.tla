------------------------------ MODULE EAOSerial ------------------------------
(***************************************************************************)
(* Serialisation by class descriptors (C11).  An object is saved as the    *)
(* dictionary of its attributes (minus removed computed fields) and        *)
(* reconstructed by calling the constructor of its class with that         *)
(* dictionary.  Loading can only work if, in every lifecycle state an      *)
(* object can be saved in, every stored key is an accepted constructor     *)
(* keyword -- and a grid can only survive if its points and zone are       *)
(* functions of the stored fields.                                         *)
(*                                                                         *)
(* A descriptor (recorded from the running code by inspection):            *)
(*   [cls, state ("fresh" | "setup" | "optimised"), stored: set of keys,   *)
(*    accepted: set of constructor keywords, required: those without       *)
(*    default, kwargs: BOOLEAN]                                            *)
(* State machine: objects move through their lifecycle (Construct, Setup,  *)
(* Optimise) and may be saved and re-loaded in every state.                *)
(***************************************************************************)
EXTENDS Integers, Sequences, FiniteSets, TLC

CONSTANTS Descriptors, GridStored, GridNeeded

Classes == { d.cls : d \in Descriptors }
VARIABLES ocls, ostate, loadable
vars == <<ocls, ostate, loadable>>
Desc(c, s) == CHOOSE d \in Descriptors : d.cls = c /\ d.state = s
Known(c, s) == \E d \in Descriptors : d.cls = c /\ d.state = s
CanLoad(c, s) == LET d == Desc(c, s) IN (d.kwargs \/ d.stored \subseteq d.accepted) /\ d.required \subseteq d.stored
Unaccepted(c, s) == LET d == Desc(c, s) IN (IF d.kwargs THEN {} ELSE d.stored \ d.accepted) \cup (d.required \ d.stored)

Init == ocls \in Classes /\ ostate = "fresh" /\ loadable = CanLoad(ocls, "fresh")
Setup == ostate = "fresh" /\ Known(ocls, "setup") /\ ostate' = "setup" /\ loadable' = CanLoad(ocls, "setup") /\ UNCHANGED ocls
Optimise == ostate = "setup" /\ Known(ocls, "optimised") /\ ostate' = "optimised" /\ loadable' = CanLoad(ocls, "optimised") /\ UNCHANGED ocls
SaveLoad == loadable /\ UNCHANGED vars          \* a loadable object re-loads into the same lifecycle position
\* io.set_param(obj, path, value): the object is saved, the leaf at `path` of the saved tree replaced, the tree loaded.
\* It therefore needs a loadable object, returns a NEW object of the same class (the original is untouched), and with the
\* value the leaf already has it is a plain SaveLoad.  io.get_param / get_params_tree read the same saved tree.
SetParam == loadable /\ UNCHANGED vars
Next == Setup \/ Optimise \/ SaveLoad \/ SetParam
Spec == Init /\ [][Next]_vars

\* C11: whatever could be saved can be loaded
LoadableInv == loadable
\* the grid's points and zone are functions of the stored fields
GridSurvives == (ocls = ocls) /\ GridNeeded \subseteq GridStored      \* (state-level so that TLC reports it as an invariant)
Report == ~loadable => PrintT(<<"UNLOADABLE", ocls, ostate, Cardinality(Unaccepted(ocls, ostate))>>)
=============================================================================
