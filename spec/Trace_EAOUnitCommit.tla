------------------------- MODULE Trace_EAOUnitCommit -------------------------
(***************************************************************************)
(* Code -> spec for C06: the optimised on/start/output series of a real    *)
(* Plant / CHP problem, step by step, against UCStep of EAOUnitCommit.     *)
(* Trace record: cfg, K, tol, vtol, chkflag, steps: seq of                 *)
(*   [on, start (BOOLEAN), p, h (K-scaled volumes), rfuel (reported fuel   *)
(*   flow * feff[1] * conv[2], K-scaled)], rval (value * conv[2] * K).     *)
(* Verdict of trace i in TLC register i.                                   *)
(***************************************************************************)
EXTENDS EAOUCGuards, IOUtils

Traces == ndJsonDeserialize(IOEnv.TRACE_FILE)
ASSUME \A i \in 1..Len(Traces) : TLCSet(i, <<0, "init">>)
VARIABLES tid, l, ust, acc, why
tvars == <<tid, l, ust, acc, why>>
Tr == Traces[tid]
C  == Tr.cfg

TInit == /\ tid \in 1..Len(Traces) /\ l = 1 /\ why = "" /\ acc = 0
         /\ ust = InitUC(Traces[tid].cfg, Traces[tid].K)

TStep == /\ l <= Len(Tr.steps) /\ why = ""
         /\ LET ev == Tr.steps[l]
                m  == [on |-> ev.on, start |-> ev.start, p |-> ev.p, h |-> ev.h]
                r  == UCStep(C, Tr.K, Tr.tol, l, ust, m)
                b  == IF r.bad = "start_flag_spurious" /\ ~Tr.chkflag THEN "" ELSE r.bad
            IN /\ why' = IF b # "" THEN b
                         ELSE IF C.fuel /\ Abs(ev.rfuel + r.fuel) > Tr.vtol THEN "fuel_drawn" ELSE ""
               /\ ust' = r.st
               /\ acc' = acc - r.cost
         /\ l' = l + 1 /\ UNCHANGED tid
TFinish == /\ l = Len(Tr.steps) + 1 /\ why = ""
           /\ why' = IF Abs(Tr.rval - acc) > Tr.vtol THEN "value" ELSE ""
           /\ l' = l + 1 /\ UNCHANGED <<tid, ust, acc>>
TSpec == TInit /\ [][TStep \/ TFinish]_tvars
Mark == TLCSet(tid, IF why # "" THEN <<l - 1, why>>
                    ELSE IF l = Len(Tr.steps) + 2 THEN <<l - 1, "accepted">> ELSE TLCGet(tid))
Post == \A i \in 1..Len(Traces) : PrintT(<<"VERDICT", i, TLCGet(i)>>)
=============================================================================
